#!/venv/bin/python
"""Sensitivity self-test: each planted change must be reported by the owning check.

Applies each patch of selftest/patches/index.json and seeded/*/meta.json to a scratch git
worktree of /repo's HEAD (under /tmp, removed afterwards), runs the owning property's check
against that checkout (VERIF_REPO=<scratch>), and expects exit 1 + a VIOLATION line.  /repo
itself is not touched, so this can run next to a soak.  With --in-place the patch is applied
to /repo instead (git apply ... git checkout -- .), exactly as an external user would.
usage: sensitivity.py [--tier quick] [--only name-substring] [--budget seconds] [--in-place]
"""
import json
import os
import subprocess
import sys
import time

ROOT = os.path.dirname(os.path.dirname(os.path.abspath(__file__)))


def sh(*a, **k):
    return subprocess.run(a, stdout=subprocess.PIPE, stderr=subprocess.STDOUT, text=True, **k)


def main():
    args = sys.argv[1:]
    tier, only, budget = "quick", None, None
    in_place = False
    while args:
        a = args.pop(0)
        if a == "--in-place":
            in_place = True
            continue
        if a == "--tier":
            tier = args.pop(0)
        elif a == "--only":
            only = args.pop(0)
        elif a == "--budget":
            budget = args.pop(0)
    if in_place and sh("git", "-C", "/repo", "status", "--porcelain", "--untracked-files=no").stdout.strip():
        print("refusing: /repo has uncommitted changes")
        return 2
    scratch = "/tmp/sens_wt_%d" % os.getpid()
    target = "/repo"
    if not in_place:
        r = sh("git", "-C", "/repo", "worktree", "add", "--detach", scratch, "HEAD")
        if r.returncode != 0:
            print("cannot create scratch worktree:", r.stdout[-300:])
            return 2
        target = scratch
    cases = []
    idx = json.load(open(os.path.join(ROOT, "selftest", "patches", "index.json")))
    for name, meta in idx.items():
        cases.append((name, os.path.join(ROOT, "selftest", "patches", name), meta["property"]))
    sd = os.path.join(ROOT, "seeded")
    for d in sorted(os.listdir(sd)) if os.path.isdir(sd) else []:
        mp = os.path.join(sd, d, "meta.json")
        if os.path.exists(mp):
            meta = json.load(open(mp))
            for pid in meta.get("checks_expected_to_catch", [meta["property"]]):
                cases.append(("seeded/" + d, os.path.join(sd, d, "patch.diff"), pid))
    results = []
    for name, patch, pid in cases:
        if only and not any(o in name for o in only.split(",")):
            continue
        t0 = time.time()
        r = sh("git", "-C", target, "apply", "--whitespace=nowarn", patch)
        if r.returncode != 0:
            results.append((name, pid, "PATCH-DOES-NOT-APPLY", 0))
            print(name, pid, "PATCH-DOES-NOT-APPLY", r.stdout[-300:])
            continue
        try:
            env = dict(os.environ)
            if budget:
                env["VERIF_BUDGET"] = budget
            if not in_place:
                env["VERIF_REPO"] = target
            # evidence of a run on a planted change must never replace the committed evidence
            env["VERIF_EVIDENCE_DIR"] = "/tmp/sens_evidence_%d" % os.getpid()
            out = sh(sys.executable, os.path.join(ROOT, "run_check.py"), pid, tier, env=env)
        finally:
            sh("git", "-C", target, "checkout", "--", ".")
        caught = out.returncode == 1 and ("VIOLATION property=%s" % pid) in out.stdout
        results.append((name, pid, "caught" if caught else "MISSED(exit=%d)" % out.returncode, time.time() - t0))
        first = next((ln for ln in out.stdout.splitlines() if ln.startswith("VIOLATION")), "")
        nxt = ""
        lines = out.stdout.splitlines()
        if first:
            i = lines.index(first)
            nxt = " | ".join(x.strip()[:160] for x in lines[i + 1:i + 3])
        print("%-40s %s %-14s %5.0fs  %s %s" % (name, pid, results[-1][2], results[-1][3], first[:90], nxt))
        sys.stdout.flush()
    # leave evidence files as a clean run would: re-running the checks is the caller's business
    import shutil

    shutil.rmtree("/tmp/sens_evidence_%d" % os.getpid(), ignore_errors=True)
    if not in_place:
        sh("git", "-C", "/repo", "worktree", "remove", "--force", scratch)
        sh("git", "-C", "/repo", "worktree", "prune")
    missed = [r for r in results if r[2] != "caught"]
    print("%d planted changes, %d caught, %d missed" % (len(results), len(results) - len(missed), len(missed)))
    return 1 if missed else 0


if __name__ == "__main__":
    sys.exit(main())
