#!/venv/bin/python
"""No-alarm self-test on behaviour-preserving changes.

Each patch of selftest/benign/*.diff is a non-trivial refactoring of pendulum that keeps every
observable behaviour (written by an independent sub-agent that saw nothing of /verif, suite
passing).  It is applied to a scratch git worktree of /repo's HEAD (under /tmp, removed
afterwards) and EVERY registered check is run against that checkout (VERIF_REPO=<scratch>):
all must exit 0 without a VIOLATION line - neither an alarm nor a harness error.
usage: benign.py [--only name-substring[,..]] [--props C01,C02,...] [--tier quick]
"""
import glob
import json
import os
import subprocess
import sys
import time

ROOT = os.path.dirname(os.path.dirname(os.path.abspath(__file__)))


def sh(*a, **k):
    return subprocess.run(a, stdout=subprocess.PIPE, stderr=subprocess.STDOUT, text=True, **k)


def main():
    args = sys.argv[1:]
    only, props, tier = None, None, "quick"
    while args:
        a = args.pop(0)
        if a == "--only":
            only = args.pop(0).split(",")
        elif a == "--props":
            props = args.pop(0).split(",")
        elif a == "--tier":
            tier = args.pop(0)
    if props is None:
        props = [c["property_id"] for c in json.load(open(os.path.join(ROOT, "MANIFEST.json")))["checks"]]
    scratch = "/tmp/benign_wt_%d" % os.getpid()
    r = sh("git", "-C", "/repo", "worktree", "add", "--detach", scratch, "HEAD")
    if r.returncode != 0:
        print("cannot create scratch worktree:", r.stdout[-300:])
        return 2
    bad = 0
    n = 0
    try:
        for patch in sorted(glob.glob(os.path.join(ROOT, "selftest", "benign", "*.diff"))):
            name = os.path.basename(patch)[:-5]
            if only and not any(o in name for o in only):
                continue
            r = sh("git", "-C", scratch, "apply", "--whitespace=nowarn", patch)
            if r.returncode != 0:
                print("%-10s PATCH-DOES-NOT-APPLY %s" % (name, r.stdout[-200:]))
                bad += 1
                continue
            try:
                for pid in props:
                    t0 = time.time()
                    env = dict(os.environ, VERIF_REPO=scratch, VERIF_EVIDENCE_DIR="/tmp/benign_evidence_%d" % os.getpid())
                    out = sh(sys.executable, os.path.join(ROOT, "run_check.py"), pid, tier, env=env)
                    ok = out.returncode == 0 and "VIOLATION" not in out.stdout
                    n += 1
                    bad += 0 if ok else 1
                    line = next((ln for ln in out.stdout.splitlines() if ln.startswith(("VIOLATION", "HARNESS"))), "")
                    print("%-10s %s %-12s %4.0fs %s" % (name, pid, "quiet" if ok else "ALARM(exit=%d)" % out.returncode, time.time() - t0, line[:200]))
                    sys.stdout.flush()
            finally:
                sh("git", "-C", scratch, "checkout", "--", ".")
    finally:
        import shutil

        shutil.rmtree("/tmp/benign_evidence_%d" % os.getpid(), ignore_errors=True)
        sh("git", "-C", "/repo", "worktree", "remove", "--force", scratch)
        sh("git", "-C", "/repo", "worktree", "prune")
    print("%d check runs on behaviour-preserving changes, %d not quiet" % (n, bad))
    return 1 if bad else 0


if __name__ == "__main__":
    sys.exit(main())
