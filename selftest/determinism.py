#!/venv/bin/python
"""Determinism self-test: (VERIF_SEED, run index) must fix the whole execution.

For each property module, N run indices are executed
  A  in index order, each twice in a row in the same process,
  B  in reverse order in a fresh interpreter with a different PYTHONHASHSEED,
  C  split over several forked workers while all cores are busy,
and the full event digests (every yield point, switch, op invoke/return and observation)
must be identical.  exit 0 iff no digest differs.

usage: determinism.py [--n 300] [--props C09,C12,...] [--seed 0]
"""
import json
import os
import subprocess
import sys

ROOT = os.path.dirname(os.path.dirname(os.path.abspath(__file__)))
sys.path.insert(0, ROOT)


def emit(pid, seed, idxs, twice):
    from sim import driver, engine

    prop = driver.load_prop(pid)
    out = {}
    for idx in idxs:
        tier = "thorough" if idx % 2 else "quick"
        sc = driver.make_scenario(prop, seed, idx, tier)
        r1 = engine.simulate(sc, full_digest=True)
        d = r1.digest
        if twice:
            r2 = engine.simulate(driver.make_scenario(prop, seed, idx, tier), full_digest=True)
            if r2.digest != d:
                d = "UNSTABLE:%s/%s" % (d[:8], r2.digest[:8])
        # the decided verdict must be reproducible too
        _, viols, _ = engine.decide(sc, prop, full_digest=True)
        out[str(idx)] = [d, len(viols), r1.nsteps]
    return out


def child(argv):
    pid, seed, lo, hi, mode = argv[0], int(argv[1]), int(argv[2]), int(argv[3]), argv[4]
    idxs = list(range(lo, hi))
    if mode == "rev":
        idxs.reverse()
    print(json.dumps(emit(pid, seed, idxs, twice=(mode == "fwd"))))


def main():
    args = sys.argv[1:]
    if args and args[0] == "--child":
        return child(args[1:])
    n, seed = 200, 0
    props = None
    while args:
        a = args.pop(0)
        if a == "--n":
            n = int(args.pop(0))
        elif a == "--props":
            props = args.pop(0).split(",")
        elif a == "--seed":
            seed = int(args.pop(0))
    if props is None:
        props = sorted(f[:-3].upper() for f in os.listdir(os.path.join(ROOT, "props")) if f.startswith("c") and f[1:3].isdigit())
    bad = 0
    for pid in props:
        def run(mode, hashseed, lo, hi):
            env = dict(os.environ, PYTHONHASHSEED=str(hashseed), PYTHONDONTWRITEBYTECODE="1")
            env.pop("TZ", None)
            return subprocess.Popen([sys.executable, os.path.abspath(__file__), "--child", pid, str(seed), str(lo), str(hi), mode],
                                    env=env, stdout=subprocess.PIPE, text=True)

        pa = run("fwd", 0, 0, n)
        pb = run("rev", 12345, 0, n)
        k = 14
        step = (n + k - 1) // k
        pcs = [run("one", 777 + j, j * step, min(n, (j + 1) * step)) for j in range(k)]
        A = json.loads(pa.communicate()[0])
        B = json.loads(pb.communicate()[0])
        C = {}
        for p in pcs:
            C.update(json.loads(p.communicate()[0]))
        diffs = [i for i in A if not (A[i] == B.get(i) == C.get(i)) or str(A[i][0]).startswith("UNSTABLE")]
        steps = sum(v[2] for v in A.values())
        print("%s: %d seeds x {same process twice, reversed order + other PYTHONHASHSEED, 14 concurrent fresh interpreters}: "
              "%d digest mismatches (%d yield points hashed)" % (pid, n, len(diffs), steps))
        for i in diffs[:5]:
            print("   idx", i, A[i], B.get(i), C.get(i))
        bad += len(diffs)
    return 1 if bad else 0


if __name__ == "__main__":
    sys.exit(main())
