#!/bin/bash
# Canary for the not-applicable verdicts (see props/na.py): exit 0 = no schedule/clock/config/history
# dependence found in the code paths of the ten not-applicable properties.
cd "$(dirname "$0")/.." && VERIF_EVIDENCE_DIR=${VERIF_EVIDENCE_DIR:-/tmp/na_canary_evidence} exec /venv/bin/python run_check.py NA "${1:-quick}"
