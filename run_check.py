#!/venv/bin/python
"""usage: run_check.py <property id> [quick|thorough]   |   run_check.py --replay <file>

exit 0: property held on everything explored (KNOWN-FINDING lines possible)
exit 1: "VIOLATION property=<id> replay=<path>" printed
exit 2: HARNESS-ERROR (never a verdict)
Honours VERIF_SEED, VERIF_TIER, VERIF_WORKERS, VERIF_BUDGET (seconds of search).
"""
import os
import sys

ROOT = os.path.dirname(os.path.abspath(__file__))


def main():
    if os.environ.get("PYTHONHASHSEED") != "0" or os.environ.get("PENDULUM_VERIF_REEXEC") != "1":
        env = dict(os.environ)
        env["PYTHONHASHSEED"] = "0"
        env["PENDULUM_VERIF_REEXEC"] = "1"
        env["PYTHONDONTWRITEBYTECODE"] = "1"
        env.pop("TZ", None)
        if env.get("VERIF_REPO"):
            # self-tests only: run against a scratch checkout instead of /repo
            env["PYTHONPATH"] = os.path.join(os.path.realpath(env["VERIF_REPO"]), "src") + os.pathsep + env.get("PYTHONPATH", "")
        os.execve(sys.executable, [sys.executable, os.path.abspath(__file__)] + sys.argv[1:], env)
    sys.path.insert(0, ROOT)
    from sim import driver

    args = sys.argv[1:]
    if args and args[0] == "--replay":
        return driver.replay(args[1])
    if not args:
        print(__doc__)
        return 2
    pid = args[0].upper()
    tier = args[1] if len(args) > 1 else os.environ.get("VERIF_TIER", "quick")
    seed = int(os.environ.get("VERIF_SEED", "0"))
    try:
        return driver.run_check(pid, tier, seed)
    except Exception:
        import traceback

        traceback.print_exc()
        print("HARNESS-ERROR: driver crashed")
        return 2


if __name__ == "__main__":
    sys.exit(main())
