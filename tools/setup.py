#!/venv/bin/python
"""MANIFEST.setup_cmd: offline sanity of everything the checks need. Builds nothing persistent."""
import importlib
import os
import sys

problems = []
for mod in ("time_machine", "tzdata", "pytz", "dateutil", "zoneinfo"):
    try:
        importlib.import_module(mod)
    except Exception as e:  # pragma: no cover
        problems.append("cannot import %s: %r" % (mod, e))
try:
    import pendulum

    if not os.path.realpath(pendulum.__file__).startswith("/repo/src/"):
        problems.append("pendulum is imported from %s, not from /repo/src" % pendulum.__file__)
    from pendulum import helpers

    print("pendulum %s from %s, compiled helpers: %s" % (
        pendulum.__version__, os.path.dirname(pendulum.__file__), helpers.precise_diff.__module__))
except Exception as e:
    problems.append("cannot import pendulum: %r" % (e,))
# compiled helper backend corresponding to /repo's current Rust sources (cached under /verif/.build)
sys.path.insert(0, os.path.dirname(os.path.dirname(os.path.abspath(__file__))))
from tools import build_ext  # noqa: E402

ext = build_ext.ensure(build=True)
print("compiled backend for the checks: %s (%s)" % (ext, build_ext.reason))
for p in problems:
    print("SETUP-ERROR:", p)
sys.exit(1 if problems else 0)
