#!/venv/bin/python
"""usage: record_detection.py <sensitivity log>...  - copy 'caught'/'MISSED' lines of selftest/sensitivity.py
into seeded/<name>/meta.json ("detected")."""
import json, os, re, sys
ROOT = os.path.dirname(os.path.dirname(os.path.abspath(__file__)))
for log in sys.argv[1:]:
    for line in open(log):
        m = re.match(r"seeded/(\S+)\s+(C\d\d) (caught|MISSED\S*)\s+(\d+)s\s*(.*)", line)
        if not m:
            continue
        name, pid, verdict, secs, rest = m.groups()
        mp = os.path.join(ROOT, "seeded", name, "meta.json")
        if not os.path.exists(mp):
            continue
        meta = json.load(open(mp))
        orc = re.search(r"oracle=(\S+) op=(\S+)", rest)
        meta["detected"] = {"by_check": pid, "result": "VIOLATION, exit 1" if verdict == "caught" else verdict,
                            "oracle": ("%s on %s" % orc.groups()) if orc else None,
                            "command": "/venv/bin/python selftest/sensitivity.py --only %s" % name, "seconds": int(secs)}
        json.dump(meta, open(mp, "w"), indent=1)
        print(name, verdict)
