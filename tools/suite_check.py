#!/venv/bin/python
"""usage: suite_check.py <checkout>  - run the pinned test suite of a scratch checkout (its src/ first on
PYTHONPATH) and compare with /root/.vp/BASELINE.json: every stable_pass test must pass.  exit 0 iff so."""
import json, os, subprocess, sys, tempfile
import xml.etree.ElementTree as ET

root = os.path.abspath(sys.argv[1])
want = set(json.load(open("/root/.vp/BASELINE.json"))["stable_pass"])
with tempfile.TemporaryDirectory() as d:
    xml = os.path.join(d, "junit.xml")
    env = {k: v for k, v in os.environ.items() if not k.startswith(("PENDULUM_VERIF", "VERIF_"))}
    env["PYTHONPATH"] = os.path.join(root, "src")
    subprocess.run(["/venv/bin/python", "-m", "pytest", "-q", "-p", "no:cacheprovider", "--timeout=900", "-x" if False else "-q",
                    "--continue-on-collection-errors", "--junitxml=" + xml], cwd=root, env=env,
                   stdout=subprocess.DEVNULL, stderr=subprocess.DEVNULL)
    passed = set()
    for tc in ET.parse(xml).getroot().iter("testcase"):
        if not any(ch.tag in ("failure", "error", "skipped") for ch in tc):
            passed.add("%s::%s" % (tc.get("classname"), tc.get("name")))
missing = sorted(want - passed)
print("suite stable_pass=%d passed_now=%d missing=%d" % (len(want), len(passed), len(missing)))
for m in missing[:10]:
    print("  NOT PASSING:", m)
sys.exit(1 if missing else 0)
