#!/bin/bash
# usage: ingest_mutant.sh <wt-name e.g. 09a> <property id e.g. C09>
# Independently confirms a sub-agent's change in a fresh scratch worktree (outside /repo and /verif):
# demo passes on the clean tree, fails with the patch, the existing suite still passes with the patch;
# then stores it under /verif/seeded/<prop>-<name>/ and removes the scratch worktree.
set -u
name="$1"; prop="$2"; src="/tmp/wt/$name/_out"; scratch="/tmp/verify_wt_$name"; dest="/verif/seeded/$prop-$name"
[ -f "$src/patch.diff" ] || { echo "$name: no patch.diff"; exit 2; }
git -C /repo worktree add -q --detach "$scratch" HEAD || exit 2
cp /repo/src/pendulum/_pendulum.cpython-312-x86_64-linux-gnu.so "$scratch/src/pendulum/" 2>/dev/null
cd "$scratch"
clean_rc=0; PYTHONPATH="$scratch/src" timeout 300 /venv/bin/python "$src/demo.py" >/tmp/ingest_$name.clean 2>&1 || clean_rc=$?
if ! git apply --whitespace=nowarn "$src/patch.diff"; then echo "$name: patch does not apply"; cd /; git -C /repo worktree remove --force "$scratch"; exit 2; fi
if git diff --name-only | grep -q '^rust/'; then
  (cd rust && PYO3_PYTHON=/venv/bin/python CARGO_TARGET_DIR="$scratch/rust/target" cargo build --release --offline --features extension-module >/dev/null 2>&1 && cp target/release/lib_pendulum.so ../src/pendulum/_pendulum.cpython-312-x86_64-linux-gnu.so)
fi
mut_rc=0; PYTHONPATH="$scratch/src" timeout 300 /venv/bin/python "$src/demo.py" >/tmp/ingest_$name.mut 2>&1 || mut_rc=$?
suite_rc=0; suite_out=$(/venv/bin/python /tmp/wt_tools/suite_check.py "$scratch" 2>&1 | head -3) || suite_rc=$?
files=$(git diff --name-only | tr '\n' ' ')
cd /; git -C /repo worktree remove --force "$scratch"
echo "$name ($prop): demo clean rc=$clean_rc, demo with patch rc=$mut_rc, suite rc=$suite_rc [$suite_out] files: $files"
if [ $clean_rc -eq 0 ] && [ $mut_rc -ne 0 ] && [ $suite_rc -eq 0 ]; then
  mkdir -p "$dest"; cp "$src/patch.diff" "$src/demo.py" "$src/notes.md" "$dest/"
  /venv/bin/python - "$dest" "$prop" "$name" "$files" "$suite_out" <<'PY'
import json, sys, os
dest, prop, name, files, suite = sys.argv[1:6]
notes = open(os.path.join(dest, "notes.md")).read()
meta = {"property": prop, "origin": "independent sub-agent given only the property text and a scratch worktree (/tmp/wt/%s)" % name,
        "files_changed": files.split(), "needs_to_manifest": notes.strip()[:1500],
        "confirmed": {"demo_on_clean_tree": "exit 0", "demo_with_patch": "non-zero exit", "existing_suite_with_patch": suite,
                      "how": "tools/ingest_mutant.sh: fresh scratch worktree of /repo HEAD under /tmp, removed afterwards"},
        "checks_expected_to_catch": [prop]}
json.dump(meta, open(os.path.join(dest, "meta.json"), "w"), indent=1)
PY
  echo "   kept as $dest"
else
  echo "   NOT kept"; tail -3 /tmp/ingest_$name.clean; tail -3 /tmp/ingest_$name.mut
fi
