#!/venv/bin/python
"""Make a compiled _pendulum extension that corresponds to /repo's *current* Rust sources.

  ensure() -> path of a usable .so, or None (pure-Python backend only; reason in .reason)

Order: (1) a build of exactly these sources cached under /verif/.build/ext/<hash>/,
(2) /repo/src/pendulum/_pendulum*.so if it is newer than every Rust source file,
(3) `cargo build --release --offline` into /verif/.build (never into /repo).
Nothing is written under /repo.
"""
from __future__ import annotations

import glob
import hashlib
import os
import shutil
import subprocess
import sys

ROOT = os.path.dirname(os.path.dirname(os.path.abspath(__file__)))
REPO_ROOT = os.path.realpath(os.environ.get("VERIF_REPO", "/repo"))
RUST = os.path.join(REPO_ROOT, "rust")
reason = ""


def _sources():
    files = [os.path.join(RUST, "Cargo.toml"), os.path.join(RUST, "Cargo.lock")]
    files += sorted(glob.glob(os.path.join(RUST, "src", "**", "*.rs"), recursive=True))
    files += sorted(glob.glob(os.path.join(RUST, ".cargo", "*")))
    return [f for f in files if os.path.isfile(f)]


def source_hash():
    h = hashlib.sha256()
    for f in _sources():
        h.update(os.path.relpath(f, RUST).encode())
        with open(f, "rb") as fh:
            h.update(fh.read())
    return h.hexdigest()[:16]


def ensure(build=True, quiet=True):
    global reason
    srcs = _sources()
    if not srcs:
        reason = "no Rust sources in /repo"
        return None
    sh = source_hash()
    out = os.path.join(ROOT, ".build", "ext", sh, "_pendulum.so")
    if os.path.exists(out):
        reason = "cached build of source hash " + sh
        return out
    installed = glob.glob(os.path.join(REPO_ROOT, "src", "pendulum", "_pendulum*.so"))
    if installed:
        newest = max(os.path.getmtime(f) for f in srcs)
        if os.path.getmtime(installed[0]) >= newest:
            reason = "installed extension is newer than every Rust source"
            return installed[0]
    if not build:
        reason = "extension stale or absent and build not requested"
        return None
    target = os.path.join(ROOT, ".build", "rust-target")
    os.makedirs(target, exist_ok=True)
    env = dict(os.environ, PYO3_PYTHON="/venv/bin/python", CARGO_NET_OFFLINE="true", CARGO_TARGET_DIR=target)
    cmd = ["cargo", "build", "--release", "--offline", "--features", "extension-module",
           "--manifest-path", os.path.join(RUST, "Cargo.toml")]
    try:
        p = subprocess.run(cmd, env=env, stdout=subprocess.PIPE, stderr=subprocess.STDOUT, text=True, timeout=900)
    except Exception as e:  # cargo missing, timeout
        reason = "cargo build failed to run: %r" % (e,)
        return None
    if p.returncode != 0:
        reason = "cargo build failed: " + p.stdout[-600:]
        if not quiet:
            print(p.stdout[-3000:])
        return None
    lib = os.path.join(target, "release", "lib_pendulum.so")
    if not os.path.exists(lib):
        reason = "cargo build produced no lib_pendulum.so"
        return None
    os.makedirs(os.path.dirname(out), exist_ok=True)
    shutil.copy2(lib, out)
    reason = "built from /repo/rust (source hash %s)" % sh
    return out


def inject(path):
    """make `import pendulum._pendulum` resolve to ``path`` (call before importing pendulum)."""
    import importlib.machinery
    import importlib.util

    loader = importlib.machinery.ExtensionFileLoader("pendulum._pendulum", path)
    spec = importlib.util.spec_from_file_location("pendulum._pendulum", path, loader=loader)
    mod = importlib.util.module_from_spec(spec)
    loader.exec_module(mod)
    sys.modules["pendulum._pendulum"] = mod
    return mod


if __name__ == "__main__":
    p = ensure(build="--no-build" not in sys.argv, quiet=False)
    print("extension:", p, "|", reason)
    sys.exit(0)
