#!/venv/bin/python
"""Regenerate /verif/MANIFEST.json from the tables below (keeps it valid and consistent)."""
import json
import os
import sys

ROOT = os.path.dirname(os.path.dirname(os.path.abspath(__file__)))
PY = "/venv/bin/python"

TECH = "deterministic simulation: seeded baton-passing thread scheduler (settrace pre-emption) + nemesis/fault injection, decided by register-linearizable quiescent re-execution (L1) and a statement reference model (L2)"

CLAIMED = {
    "C09": {
        "text": "Seeded search over thread interleavings (line and eval-breaker granularity), set_locale flips and cache restarts of 2-4 real threads sharing fresh Durations; every observation must equal the cold single-threaded re-execution and the integer model of the statement. Samples schedules; does not enumerate the input quantifier.",
        "ref": "DESIGN.md §5 C09",
        "note": "trusts: CPython threads parked/released one at a time; C code atomic; integer model restricted to |total| < 1e8 s (float-exact range)",
    },
}

CLAIMED["C12"] = {
    "text": "Seeded search over interleavings of start_of/end_of (9 units, DateTime and Date, values obtained by construction, conversion, parsing, timestamps, earlier ops and the simulated clock) with a nemesis that rewrites week_starts_at()/week_ends_at() mid-call and restarts caches; each result must be the answer under one configuration that was in force during the call (register linearizability against the cold re-execution) and must equal the first/last instant of the unit computed from the standard library's tz data.",
    "ref": "DESIGN.md §5 C12",
    "note": "trusts: stdlib zoneinfo/tzdata as reference; week registers written by a single nemesis actor; for second/minute/hour inside a repeated period the unit is the value's own occurrence (as the repository's tests pin it); two open known finding classes (unit boundary strictly inside an off-the-hour gap; week boundary on a calendar day the zone skipped entirely) are suppressed by signature only",
}

CLAIMED["C16"] = {
    "text": "Seeded search over interleavings of next/previous/first_of/last_of/nth_of (Date and DateTime, zones with skipped midnights) with a nemesis that calls calendar.setfirstweekday(), rewrites the week configuration, clears the zone cache and restarts; every result must equal the cold re-execution in the default environment (the statement has no dependence on the calendar module's display setting) and the weekday arithmetic of datetime.date.",
    "ref": "DESIGN.md §5 C16",
    "note": "trusts: datetime.date arithmetic and stdlib zoneinfo as reference; time-of-day is asserted only where the target wall time is unique or a skipped midnight; silent where the calendar day the statement names does not exist in the zone; one open known finding class (keep_time with a kept time that is skipped on the target day)",
}

CLAIMED["C02"] = {
    "text": "Seeded search over interleavings of local()/tz='local'/now()/explicit-zone construction (datetime, set/on/at/replace, parse(tz=), Timezone.convert/datetime, instance) with a nemesis that sets and clears the mock local zone, rewrites the fake /etc and TZ configuration, arms file-system faults (ENOENT after isfile, EACCES, EIO, EMFILE, short read, garbage/truncated/dangling content) and restarts or heals at barriers. Every result must equal the cold re-execution under one admissible local zone (mock in force during the call, or a zone some configuration source named in the epoch; UTC only when every source can be empty), may raise only when a fault fired or content is invalid, must succeed after heal, and must follow the documented gap/overlap rules computed from the standard library's tz data.",
    "ref": "DESIGN.md §5 C02",
    "note": "trusts: stdlib zoneinfo + tzdata package as reference (TZPATH restricted to the package); fake file system stands in for /etc and the environment; which configuration source wins is deliberately not asserted (not part of the property)",
}

CLAIMED["C06"] = {
    "text": "Seeded search over interleavings of 2-4 threads reading the components of the same fresh Interval (b - a, diff(), interval(); UTC, fixed-offset, naive, Date, same-zone and mixed-zone pairs biased to month ends, leap days and time-of-day borrows) while others rebuild the end (a + iv, a.add(components)), negate, copy, pickle or render it, with set_locale flips, zone-cache clears and restarts. Every observation must equal the cold single-threaded re-execution; for pairs that meet the statement's precondition the components must be canonical, a + (b - a) must be b, the reversed interval must report the negated components and in_months must be 12*years + months; every run index is executed by the compiled and the pure-Python helper backend (rebuilt from /repo/rust when its sources changed) and their un-pre-empted observations must be identical.",
    "ref": "DESIGN.md §5 C06",
    "note": "trusts: endpoint pairs kept within 250 years so the float-derived sub-second components stay exact (C05's bound); rebuild is asserted for a <= b only, as the statement says; no open known finding (the compiled mixed-zone date shift was repaired by bf98e04/771269e)",
}

CLAIMED["C18"] = {
    "text": "Seeded search over interleavings of diff_for_humans()/format_diff()/in_words()/locale format tokens (DateTime, Date, Time, Duration, Interval; all 27 locales) under a simulated clock that the nemesis moves between and during calls, set_locale flips, mock-local-zone changes and restarts; instances are placed at clock +- deltas straddling every rounding threshold and plural class. Each phrase must equal the cold re-execution under one admissible (clock, locale, local zone) assignment, be non-empty and fully substituted, match a template of the correct direction taken from the locale's own data (not from DifferenceFormatter), carry no direction marker when absolute, and its count x unit must be within one unit of the elapsed time to the simulated clock.",
    "ref": "DESIGN.md §5 C18",
    "note": "trusts: time_machine as the clock seam (C entry points patched), locale data files as template source; nominal unit lengths (365.2425 d year, 30.44 d month, 2% slack); Time.diff_for_humans is decided by L1 only; one open known finding class (same-zone offset change) is suppressed by signature only",
}

CLAIMED["C08"] = {
    "text": "Seeded search over interleavings of format(), the to_*_string() helpers and from_format() (random token sequences with literals and escapes, full round-trip formats, partial formats, localized names in the 27 locales, mismatching strings) under a simulated clock biased to the last/first instants of a day, month or year in the zone the caller asks for, set_locale flips, restarts and both helper backends. Each result must equal the cold re-execution under one admissible (clock, locale) assignment; format() output must equal an independent renderer built on the standard library and the locale data; from_format(format()) must return the value's fields and offset; fields the format does not supply must come from the simulated now rendered in the requested zone (and the completed wall time follows the construction rules; a weekday-only format is completed to the day of now's week that falls on that weekday); mismatching strings must raise ValueError; compiled and pure-Python backends must agree.",
    "ref": "DESIGN.md §5 C08",
    "note": "trusts: stdlib strftime-free integer rendering + locale data tables as reference; formats are generated with literal separators so tokenisation is unambiguous; ordinal tokens (Do, Mo, ...) and LT..LLLL are decided by L1 and the round trip only; zone-name formats are not asserted for repeated wall times (a name cannot carry the occurrence)",
}

CLAIMED["C01"] = {
    "text": "Seeded search over interleavings of in_tz/in_timezone, astimezone, from_timestamp, instance() of aware natives (zoneinfo, pytz, dateutil, datetime.timezone), timezone(int|str), parse with offsets and the timestamp accessors, with clients racing on a cold fixed-offset cache, zone-cache clears by the nemesis and restarts between dependent ops, in both helper backends. Every result must equal the cold single-threaded re-execution, denote the source instant to the microsecond, report the requested zone and carry the fields and offset the standard library's tz database assigns to that instant; chains A->B->C are judged against A->C, and int_timestamp/timestamp() must invert from_timestamp().",
    "ref": "DESIGN.md §5 C01",
    "note": "trusts: stdlib zoneinfo + tzdata package as reference; the instant of a foreign aware datetime is taken from its own tzinfo; pytz sources restricted to whole-minute offsets (pytz rounds LMT offsets)",
}

CLAIMED["C05"] = {
    "text": "Narrow claim - the two facets of this input-quantified property that meet a seam. (1) Interval construction takes a different route (and Python compares by wall clock) when both endpoints carry the same tzinfo object; whether two values in one named zone share the object is decided by zoneinfo's weak cache, i.e. by history. Seeded search over interleavings in which the endpoints are built inside the op while a nemesis clears the zone cache, other threads build the same zones, and restarts happen between dependent ops: b - a, diff(), interval(), abs(), negation, in_seconds/minutes/hours and subtraction of native datetimes must equal the cold re-execution and the exact integer-microsecond distance of the two instants. (2) diff() without argument must be the magnitude against the simulated clock, linearised over clock moves.",
    "ref": "DESIGN.md §5 C05",
    "note": "trusts: stdlib zoneinfo for the instants of the endpoints; exactness asserted below 2**33 s and 64 us beyond, as the statement says; the input-universal part of the property (all pairs over years 1..9999) is not decided",
}

CLAIMED["C14"] = {
    "text": "Narrow claim - the facets of round-trip fidelity that meet a seam. Restart: pickle bytes produced inside the simulated (warm, concurrent) process are loaded in a fresh fork of a pristine copy of the worker that shares no zone objects or caches with the sender and is configured differently (another local zone, default locale and week; the sender's local zone is often the very zone of its values), and must observe exactly like the original. Concurrency: copy, deepcopy and pickle of Durations/Intervals shared between threads while others read their lazily cached slots, and of DateTimes while the nemesis clears the zone cache. Identity: copy == original (for the types the statement names) and copy - original == 0 whatever tzinfo objects the copy shares with the original. Every copy must observe like a second, untouched instance of the value (type, fields, fold of repeated wall times, offset, zone, all duration components and sign, interval endpoints and absolute flag).",
    "ref": "DESIGN.md §5 C14",
    "note": "trusts: the observation function as the definition of 'indistinguishable through public accessors'; == is asserted only for Date, Time, Duration and for Intervals without an endpoint on a repeated wall time (PEP 495 makes such aware datetimes unequal across tzinfo objects); the input-universal part (all values x protocols) is sampled, not enumerated",
}

NOT_APPLICABLE = {
    "C03": "pure function of its arguments and immutable zone data: no clock, shared mutable slot, configuration or I/O in add/subtract with fixed units; nothing for a scheduler or fault injector to vary",
    "C04": "pure function of its arguments (calendar arithmetic + construction rules); Duration fields it reads are written once in __new__; no schedule, clock or fault dependence",
    "C07": "parsing is a pure function of the string and options in both backends; the clock only supplies a date the statement does not constrain",
    "C10": "operators read only fields written once in __new__; no lazy slot, global, clock or I/O",
    "C11": "accessors of an immutable value vs the native object with the same fields; any ambient state enters both through the same inherited C code",
    "C13": "pure function of the string; the parsed value is thread-local until returned",
    "C15": "closed-form integer functions in both backends; no state, clock or I/O",
    "C17": "outcome type is a function of the string and options; the clock only supplies always-valid fields; environment faults are outside 'for any input string and options'",
    "C19": "a generator over immutable endpoints, private to each caller; no shared state, clock or I/O",
    "C20": "pure modular arithmetic on an immutable value; Time.diff()'s clock default is not in the statement",
}

ALL = ["C%02d" % i for i in range(1, 21)]

# designed as simulation targets (DESIGN.md §5) but whose check is not registered yet
PENDING = {p: "simulation target per DESIGN.md §5, check still under construction in this commit (not claimed yet)"
           for p in ()}

FIX_COMMITS = ["0cac821 (C09 lazy-slot race)", "c2f908d (previous() never terminates across a skipped calendar day; C12/C16)",
               "2c83944 (next() drifts to 01:00 after a skipped midnight; C16)", "6249586 (C12 week configuration read twice)", "1273e62 (C16 first_of/last_of depend on calendar.setfirstweekday())", "9fab684 (C02 mock local zone read twice)", "fc92ad3 (C06 precise_diff full-month shortcut, Python + Rust)", "b63f456 (Interval.__init__ dropped endpoint fold; C18)", "a0e6037 (zh before/after templates; C18)", "5ef6d18 (nl week_data misplaced; C18)", "89fb712 (Rust ordinal dates on month ends; C08)", "ab5eca4 (z token regex; C08)", "77c9f3a (from_format escaped literals; C08)", "7d62906 + 71470da (Do token in from_format; C08)", "a8ba9ca (instance() of pytz second-pass datetimes; C01)", "df3000b (instance() of pytz.FixedOffset; C01)", "a2ae08e (Interval endpoint order by instant for shared tzinfo; C05/C18)", "6546eac (Duration deepcopy weeks; C14)", "02aeae7 (Interval deepcopy; C14)", "3598369 (DateTime pickle fold; C14)", "249b599 (Duration pickle years/months; C14)",
               "bf98e04 (compiled precise_diff UTC shift across month boundaries; C06/C18)", "771269e (compiled precise_diff equal-endpoints early return; C06)",
               "dc6c9d1 (quarter/year navigation carried the time of day onto a date where it is skipped; C16)",
               "f41cb8b (start_of/end_of boundary resolved with the carried fold; C12/C16)", "eb4d7a7 (navigation kept 01:00 from a day without midnight; C16)", "7544ddf (navigation target date resolved in one step; C16)", "356e0d0 (next/previous skip candidates normalised onto another day; C16)"]


def main():
    sys.path.insert(0, ROOT)
    fixes = FIX_COMMITS
    checks = []
    for pid in sorted(CLAIMED):
        c = CLAIMED[pid]
        checks.append({
            "property_id": pid,
            "quick_cmd": "%s /verif/run_check.py %s quick" % (PY, pid),
            "thorough_cmd": "%s /verif/run_check.py %s thorough" % (PY, pid),
            "evidence_file": "/verif/evidence/%s.json" % pid,
            "replay_cmd_template": "%s /verif/run_check.py --replay {path}" % PY,
            "engine": "sim",
            "level_claimed": {"category": "exploration", "text": c["text"], "design_ref": c["ref"]},
            "level_note": c["note"],
            "technique": TECH,
        })
    reasons = dict(PENDING)
    reasons.update(NOT_APPLICABLE)
    missing = [p for p in ALL if p not in CLAIMED and p not in reasons]
    assert not missing, missing
    na = [{"property_id": p, "reason": reasons[p]} for p in ALL if p not in CLAIMED]
    m = {
        "version": 1,
        "setup_cmd": "%s /verif/tools/setup.py" % PY,
        "hooks": {
            "guard": "PENDULUM_VERIF",
            "enable": "no source hooks are needed: every seam already exists (time_machine for the clock, the os/open names in pendulum.tz.local_timezone's namespace for the file system, sys.settrace for pre-emption, public setters for configuration); the guard name is reserved and unused",
            "baseline_off_cmd": "%s /verif/tools/baseline_check.py" % PY,
            "source_commits": [],
            "add_only": True,
        },
        "engines": [{
            "name": "sim",
            "path": "/verif/sim",
            "serves_properties": sorted(CLAIMED),
            "kind_free_text": "in-process deterministic simulator: real pendulum code run by real threads under a seeded baton-passing scheduler (sys.settrace yield points), simulated clock (time_machine), fake file system/environment, nemesis for configuration flips and faults, cold quiescent re-execution as linearizability oracle, ddmin minimiser, JSON replay files",
        }],
        "checks": checks,
        "notes": "fix: commits in /repo (unguarded defect repairs): %s. Known findings: /verif/known_findings.json. Every check runs against the compiled helpers rebuilt from /repo/rust (never a stale _pendulum*.so in /repo/src) with a share of the runs on the pure-Python helpers; one run in four draws its zones from all tzdata names (evidence key zone_swarm). Self-tests: selftest/determinism.py, selftest/sensitivity.py (123 planted changes), selftest/benign.py (13 behaviour-preserving refactorings)." % (", ".join(fixes) or "none"),
        "not_applicable": na,
    }
    with open(os.path.join(ROOT, "MANIFEST.json"), "w") as f:
        json.dump(m, f, indent=1)
        f.write("\n")
    print("MANIFEST.json: %d checks, %d not_applicable" % (len(checks), len(na)))


if __name__ == "__main__":
    main()
