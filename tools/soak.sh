#!/bin/bash
# usage: soak.sh "<props>" "<seeds>" [tier]   - no-alarm soak; prints one line per (prop, seed)
props="$1"; seeds="$2"; tier="${3:-quick}"
for s in $seeds; do for p in $props; do
  out=$(VERIF_SEED=$s VERIF_WORKERS=${VERIF_WORKERS:-8} /venv/bin/python run_check.py $p $tier 2>&1); rc=$?
  echo "seed=$s $p rc=$rc $(echo "$out" | tail -1)"
  if [ $rc -ne 0 ]; then echo "$out" | grep -v KNOWN | head -30 | cut -c1-700; fi
done; done
