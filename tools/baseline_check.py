#!/venv/bin/python
"""Run the repository's pinned test suite (guard OFF: no verif env vars) and compare with
/root/.vp/BASELINE.json: every stable_pass test must still pass.  exit 0 iff so."""
import json, os, subprocess, sys, tempfile
import xml.etree.ElementTree as ET

base = json.load(open("/root/.vp/BASELINE.json"))
want = set(base["stable_pass"])
with tempfile.TemporaryDirectory() as d:
    xml = os.path.join(d, "junit.xml")
    env = {k: v for k, v in os.environ.items() if not k.startswith(("PENDULUM_VERIF", "VERIF_"))}
    subprocess.run([sys.executable, "-m", "pytest", "-q", "-p", "no:cacheprovider", "--timeout=900",
                    "--continue-on-collection-errors", "--junitxml=" + xml], cwd="/repo", env=env,
                   stdout=subprocess.DEVNULL, stderr=subprocess.DEVNULL)
    passed = set()
    for tc in ET.parse(xml).getroot().iter("testcase"):
        if not any(ch.tag in ("failure", "error", "skipped") for ch in tc):
            passed.add("%s::%s" % (tc.get("classname"), tc.get("name")))
missing = sorted(want - passed)
print("baseline stable_pass=%d passed_now=%d missing=%d" % (len(want), len(passed), len(missing)))
for m in missing[:20]:
    print("  NOT PASSING:", m)
sys.exit(1 if missing else 0)
