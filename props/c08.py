"""C08 - format() renders every token correctly and from_format() inverts it.

Facet decided by simulation: (a) "fields absent from the format are filled from now": at the
public from_format() the "now" is the simulated clock rendered in the requested zone; (b) with
locale=None the answer corresponds to *one* value of the process-wide locale under concurrent
set_locale(); (c) answers do not depend on locale-cache / zone-list-cache / fixed-offset-cache
temperature, restarts or interleaving; (d) both helper backends agree.
"""
from __future__ import annotations

import calendar as _cal
import datetime as _dt

from sim import tzdb
from sim.engine import reg_candidates

from . import common, gen_dt
from .c18 import LOCALES, _locale_data

ID = "C08"
BUDGET = {"quick": 40.0, "thorough": 600.0}
RUNS = {"quick": 12000}
CROSS_BACKEND = True
US = 10**6

NUM_TOKENS = ["YYYY", "YY", "Y", "Q", "MM", "M", "DD", "D", "DDDD", "DDD", "d", "E", "HH", "H", "hh", "h", "mm", "m",
              "ss", "s", "S", "SS", "SSS", "SSSS", "SSSSS", "SSSSSS", "X", "x", "Z", "ZZ", "z", "zz", "A"]
NAME_TOKENS = ["MMMM", "MMM", "dddd", "ddd", "dd"]
SEPS = ["-", "/", ":", " ", ".", "T", ", ", " [at] ", "[h]", " [escaped YYYY MM] ", "_", " | "]
WHOLE_MIN_FIXED = [0, 3600, -3600, 19800, -16200, 20700, 45900, -43200, 50400, 86340, -86340, -1800]
ZONES2 = ["UTC", "Europe/Paris", "America/New_York", "Asia/Tokyo", "Asia/Kolkata", "Australia/Lord_Howe", "Europe/London",
          "Pacific/Auckland", "America/St_Johns", "Asia/Kathmandu", "Africa/Nairobi", "America/Sao_Paulo"]
ZONES3 = ["America/Argentina/Buenos_Aires", "America/Indiana/Knox", "America/Kentucky/Louisville"]
FULL_FORMATS = [
    "YYYY-MM-DD HH:mm:ss.SSSSSS Z", "YYYY-MM-DDTHH:mm:ss.SSSSSSZZ", "DD/MM/YYYY HH:mm:ss.SSSSSS z", "YYYY-DDDD HH:mm:ss.SSSSSS Z",
    "dddd D MMMM YYYY HH:mm:ss.SSSSSS Z", "ddd, DD MMM YYYY HH:mm:ss.SSSSSS ZZ", "YYYY-MM-DD hh:mm:ss.SSSSSS A Z", "YYYY-M-D H:m:s.SSSSSS Z",
    "MMMM Do YYYY HH:mm:ss.SSSSSS Z", "YYYY [year] MM [month] DD [day] HH:mm:ss.SSSSSS z",
    # the same information in other orders: what a token means must not depend on what was read before it
    "DDDD/YYYY HH:mm:ss.SSSSSS Z", "HH:mm:ss.SSSSSS Z DD-MM-YYYY", "Z ss:mm:HH.SSSSSS D/M/YYYY", "A hh:mm:ss.SSSSSS DD.MM.YYYY ZZ",
    "[day] DDD [of] YYYY HH:mm:ss.SSSSSS Z",
]
PARTIAL = ["HH:mm", "HH:mm:ss", "hh:mm A", "H", "MM-DD", "MM-DD HH:mm", "DD", "D HH:mm:ss.SSS", "YYYY", "YYYY-MM", "YYYY HH", "MM",
           "M/D", "HH:mm:ss.SSSSSS", "mm:ss", "Q", "DDDD", "YYYY-DDD"]
# a weekday name (and at most a time) and nothing else of the date: the day is the one of now's week
# (in the requested zone) that falls on that weekday - whatever side of a month or year end it lies on
WEEKDAY_PARTIAL = ["dddd HH:mm", "ddd HH:mm:ss", "dddd", "ddd H"]
HELPERS = ["to_time_string", "to_datetime_string", "to_date_string", "to_atom_string", "to_cookie_string", "to_iso8601_string",
           "to_rfc822_string", "to_rfc850_string", "to_rfc1036_string", "to_rfc1123_string", "to_rfc2822_string",
           "to_rfc3339_string", "to_rss_string", "to_w3c_string", "to_day_datetime_string", "to_formatted_date_string"]
HELPER_FMT = {
    "to_time_string": ("HH:mm:ss", None), "to_datetime_string": ("YYYY-MM-DD HH:mm:ss", None), "to_date_string": ("YYYY-MM-DD", None),
    "to_atom_string": ("YYYY-MM-DDTHH:mm:ssZ", None), "to_cookie_string": ("dddd, DD-MMM-YYYY HH:mm:ss zz", "en"),
    "to_rfc822_string": ("ddd, DD MMM YY HH:mm:ss ZZ", None), "to_rfc850_string": ("dddd, DD-MMM-YY HH:mm:ss zz", None),
    "to_rfc1036_string": ("ddd, DD MMM YY HH:mm:ss ZZ", None), "to_rfc1123_string": ("ddd, DD MMM YYYY HH:mm:ss ZZ", None),
    "to_rfc2822_string": ("ddd, DD MMM YYYY HH:mm:ss ZZ", None), "to_rss_string": ("ddd, DD MMM YYYY HH:mm:ss ZZ", None),
    "to_day_datetime_string": ("ddd, MMM D, YYYY h:mm A", "en"),
}


# ------------------------------------------------------------------- reference renderer
def tokenize(fmt):
    """documented token grammar for the formats this workload generates (tokens are always
    separated by literals or escapes, so longest-match on the token alphabet is unambiguous)."""
    out = []
    i = 0
    order = sorted(NUM_TOKENS + NAME_TOKENS + ["Do"], key=len, reverse=True)
    while i < len(fmt):
        if fmt[i] == "[":
            j = fmt.index("]", i)
            out.append(("lit", fmt[i + 1:j]))
            i = j + 1
            continue
        for t in order:
            if fmt.startswith(t, i):
                out.append(("tok", t))
                i += len(t)
                break
        else:
            out.append(("lit", fmt[i]))
            i += 1
    return out


def render_token(t, f, off, zone, loc):
    y, mo, d, H, M, S, us = f
    date = _dt.date(y, mo, d)
    if t == "YYYY" or t == "Y":
        return "%d" % y
    if t == "YY":
        return ("%d" % y)[2:]
    if t == "Q":
        return "%d" % ((mo - 1) // 3 + 1)
    if t == "MM":
        return "%02d" % mo
    if t == "M":
        return "%d" % mo
    if t == "DD":
        return "%02d" % d
    if t == "D":
        return "%d" % d
    if t == "DDDD":
        return "%03d" % date.timetuple().tm_yday
    if t == "DDD":
        return "%d" % date.timetuple().tm_yday
    if t == "d":
        return "%d" % (date.isoweekday() % 7)
    if t == "E":
        return "%d" % date.isoweekday()
    if t == "HH":
        return "%02d" % H
    if t == "H":
        return "%d" % H
    if t == "hh":
        return "%02d" % (H % 12 or 12)
    if t == "h":
        return "%d" % (H % 12 or 12)
    if t == "mm":
        return "%02d" % M
    if t == "m":
        return "%d" % M
    if t == "ss":
        return "%02d" % S
    if t == "s":
        return "%d" % S
    if t in ("S", "SS", "SSS", "SSSS", "SSSSS", "SSSSSS"):
        n = len(t)
        return "%0*d" % (n, us // 10 ** (6 - n))
    if t in ("X", "x"):
        if off is None:
            return None
        secs = (tzdb.naive_us(f) - us) // US - int(off)
        return "%d" % secs if t == "X" else "%d" % (secs * 1000 + us // 1000)
    if t in ("Z", "ZZ"):
        if off is None:
            return ""
        mins = int(off) // 60 if off >= 0 else -((-int(off)) // 60)
        sign = "+" if off >= 0 else "-"
        hh, mm = divmod(abs(mins), 60)
        return "%s%02d%s%02d" % (sign, hh, ":" if t == "Z" else "", mm)
    if t == "z":
        if zone is None:
            return ""
        if isinstance(zone, int):
            return _fixed_name(zone)
        return zone
    if t == "zz":
        if zone is None:
            return ""
        if isinstance(zone, int):
            return _fixed_name(zone)
        inst = tzdb.naive_us(f) - int(off * US)
        return tzdb.from_us(inst, zone).tzname()
    data = _locale_data(loc)["translations"]
    if t == "A":
        return data["day_periods"]["pm" if H >= 12 else "am"]
    if t == "MMMM":
        return data["months"]["wide"][mo]
    if t == "MMM":
        return data["months"]["abbreviated"][mo]
    if t == "dddd":
        return data["days"]["wide"][date.weekday()]
    if t == "ddd":
        return data["days"]["abbreviated"][date.weekday()]
    if t == "dd":
        return data["days"]["short"][date.weekday()]
    return None


def _fixed_name(o):
    sign = "-" if o < 0 else "+"
    hh, mm = divmod(abs(int(o / 60)), 60)
    return "%s%02d:%02d" % (sign, hh, mm)


def render(fmt, f, off, zone, loc):
    parts = []
    for kind, v in tokenize(fmt):
        if kind == "lit":
            parts.append(v)
        else:
            if v == "Do":
                return None
            r = render_token(v, f, off, zone, loc)
            if r is None:
                return None
            parts.append(r)
    return "".join(parts)


# ------------------------------------------------------------------------------ generator
# zones whose offsets changed between eras without a change of the DST flag (whole minutes)
ERA_ZONES = ["Europe/Moscow", "Asia/Pyongyang", "Europe/Istanbul", "America/Caracas", "Asia/Kathmandu", "Pacific/Apia",
             "Europe/Minsk", "Asia/Colombo"]


def _zones2():
    """the curated zones, or - in a wide run (gen_dt) - this run's sample of all tzdata names"""
    return gen_dt.ALL_NAMED if gen_dt.WIDE else ZONES2


def _value(r, full=False, zone_=None):
    """(spec, meta) of a DateTime in years 1000..9999 with a whole-minute offset."""
    k = r.random()
    if zone_ is not None:
        zone = zone_
    elif k < 0.25:
        zone = r.choice(WHOLE_MIN_FIXED)
    elif k < 0.32 and not full:
        zone = None
    elif k < 0.4:
        zone = r.choice(ZONES3)
    else:
        zone = r.choice(_zones2())
    inst = gen_dt.pick_instant(r, zone, lo_year=1972, hi_year=2037) if r.random() < 0.8 else \
        r.randrange(tzdb.year_start_us(1000), tzdb.year_start_us(9999))
    if zone is None:
        f = tzdb.us_to_fields(inst)
        return {"$": "naive", "f": f}, {"f": f, "off": None, "zone": None, "inst": None}
    f, off, _ = tzdb.render(zone, inst)
    if off != int(off) or int(off) % 60:
        # LMT-era sub-minute offset: outside the property's domain (whole-minute offsets)
        inst = tzdb.year_start_us(r.randint(1980, 2030)) + r.randrange(0, 365 * 86400 * US)
        f, off, _ = tzdb.render(zone, inst)
    ts = tzdb.wall_to_instants(zone, f)
    spec = {"$": "dt", "f": f, "tz": zone, "fold": 0 if (len(ts) == 2 and inst == ts[0]) else 1}
    return spec, {"f": f, "off": off, "zone": zone, "inst": inst}


def _localized(fmt):
    return any(k == "tok" and v in NAME_TOKENS + ["A", "Do"] for k, v in tokenize(fmt))


def _random_fmt(r):
    n = r.randint(1, 6)
    toks = [r.choice(NUM_TOKENS) if r.random() < 0.8 else r.choice(NAME_TOKENS) for _ in range(n)]
    out = toks[0]
    for t in toks[1:]:
        out += r.choice(SEPS) + t
    if r.random() < 0.2:
        out = r.choice(["[on] ", "[", "[T]"]).replace("[", "[x", 1) if False else "[at] " + out
    return out


def gen(rp, rw, tier):
    locales = rw.sample(LOCALES, 3)
    pool, meta = [], []
    for _ in range(rp.choice([1, 2, 3])):
        s, m = _value(rp)
        pool.append(s)
        meta.append(m)
    if rp.random() < 0.2:
        # the same zone object in two eras: nothing remembered about the zone may stand in for
        # what depends on the instant
        ez = rp.choice(ERA_ZONES)
        for _ in range(2):
            s, m = _value(rp, zone_=ez)
            pool.append(s)
            meta.append(m)
    twins = None
    if rp.random() < 0.2:
        # values that are == and hash alike for the standard library yet render differently: one
        # instant in two zones, or the two occurrences of one repeated wall time
        if rp.random() < 0.5:
            s1, m1 = _value(rp, zone_=rp.choice(["UTC", "Europe/Paris", "Asia/Tokyo"]))
            z2 = rp.choice([z for z in ["America/New_York", "Asia/Kolkata", "Pacific/Auckland", "Europe/London"]])
            f2, off2, fold2 = tzdb.render(z2, m1["inst"])
            if off2 == int(off2) and int(off2) % 60 == 0:
                s2 = {"$": "dt", "f": f2, "tz": z2, "fold": fold2 if len(tzdb.wall_to_instants(z2, f2)) == 2 else 1}
                twins = [(s1, m1), (s2, {"f": f2, "off": off2, "zone": z2, "inst": m1["inst"]})]
        else:
            z = rp.choice(["Europe/Paris", "America/New_York", "Europe/London", "America/Sao_Paulo", "Pacific/Auckland"])
            ov = [(t, o0, o1) for t, o0, o1 in tzdb.transitions(z) if o1 < o0]
            if ov:
                t, o0, o1 = rp.choice(ov)
                w = tzdb.us_to_fields((t + o1) * US + rp.randrange(0, (o0 - o1) * US))
                ts = tzdb.wall_to_instants(z, w)
                if len(ts) == 2:
                    twins = [({"$": "dt", "f": w, "tz": z, "fold": fo}, {"f": w, "off": tzdb.render(z, ts[fo])[1], "zone": z, "inst": ts[fo]})
                             for fo in rp.sample([0, 1], 2)]
        if twins:
            for s_, m_ in twins:
                pool.append(s_)
                meta.append(m_)
    zone_clock = rw.choice(_zones2())
    clock = gen_dt.pick_instant(rw, zone_clock, lo_year=1975, hi_year=2035)
    # bias "now" to the last/first moments of a day, month or year in the zone a client will ask for
    if rw.random() < 0.6:
        y = rw.randint(1980, 2030)
        w = rw.choice([[y, 12, 31, 23, 59, 59, 999999], [y, 1, 1, 0, 0, 0, 0], [y, rw.randint(1, 12), 1, 0, 0, 0, 0],
                       [y, 2, 28, 23, 59, 59, 0], [y, 3, 1, 0, 0, 1, 0], [y, 12, 31, rw.randint(0, 23), 30, 0, 0]])
        ts = tzdb.wall_to_instants(zone_clock, w)
        if ts:
            clock = ts[-1] + rw.choice([0, 0, 1, -1, US])
    world = {"clock": clock, "locale": rw.choice(locales)}
    clocks = [clock]
    nem = []
    if rw.random() < 0.65:
        for _ in range(rw.randint(1, 3)):
            k = rw.random()
            if k < 0.5:
                c2 = clocks[-1] + rw.choice([1, US, 3600 * US, -3600 * US, 86400 * US, rw.randrange(-10**12, 10**12)])
                clocks.append(c2)
                nem.append(["nem", "clock", c2])
            else:
                nem.append(["nem", "locale", rw.choice(locales + ["xx", "en_zz"]) if rw.random() < 0.15 else rw.choice(locales)])
    nem_has_locale = any(e[1] == "locale" for e in nem)
    actors = []
    for c in range(rw.choice([1, 2, 2, 3])):
        ops = []
        for _ in range(rw.choice([1, 2, 3, 4])):
            i = rp.randrange(len(pool))
            T = {"$": "p", "i": i}
            m = meta[i]
            x = rp.random()
            loc = rp.choice(locales + [None, None, rp.choice(LOCALES)])
            kw = {} if loc is None else {"locale": loc}
            if x < 0.3:
                ops.append(["call", T, "format", [_random_fmt(rp)], kw])
            elif x < 0.4:
                ops.append(["call", T, rp.choice(HELPERS)])
            elif x < 0.62 and m["zone"] is not None:
                fmt = rp.choice(FULL_FORMATS)
                if " z" in fmt and isinstance(m["zone"], int):
                    fmt = fmt.replace(" z", " Z")
                if _localized(fmt) and "locale" not in kw and nem_has_locale:
                    # the default locale may be flipped between format() and from_format()
                    kw = {"locale": rp.choice(locales)}
                ops.append(["call", T, "format", [fmt], kw])
                tzarg = rp.choice(["UTC", "Europe/Paris", m["zone"] if isinstance(m["zone"], str) else "UTC"])
                ops.append(["pcall", "from_format", [{"$": "r", "i": len(ops) - 1}, fmt], dict(kw, tz=gen_dt.tz_spec(tzarg))])
            elif x < 0.88:
                fmt = rp.choice(PARTIAL)
                z = rp.choice([zone_clock, zone_clock, rp.choice(_zones2()), "UTC"])
                src, sm = _value(rp, full=True)
                if rp.random() < 0.15:
                    fmt = rp.choice(WEEKDAY_PARTIAL)
                    text = render(fmt, sm["f"], sm["off"], sm["zone"], "en")
                    ops.append(["pcall", "from_format", [text, fmt], {"locale": "en", "tz": gen_dt.tz_spec(z)}, "weekday", list(sm["f"])])
                    continue
                if _localized(fmt) and "locale" not in kw:
                    kw = {"locale": rp.choice(locales)}
                text = render(fmt, sm["f"], sm["off"], sm["zone"], kw.get("locale", "en"))
                ops.append(["pcall", "from_format", [text, fmt], dict(kw, tz=gen_dt.tz_spec(z))])
            else:
                fmt = rp.choice(FULL_FORMATS[:4] + PARTIAL[:6])
                src, sm = _value(rp, full=True)
                text = render(fmt, sm["f"], sm["off"], sm["zone"], "en")
                # only edits no lenient field width can absorb
                bad = rp.choice([text + "x", "x" + text, text.replace(":", ";", 1), "", text + " !"])
                if bad == text:
                    bad = text + "!"
                ops.append(["pcall", "from_format", [bad, fmt], {"tz": gen_dt.tz_spec("UTC")}, "mismatch"])
        if rp.random() < 0.12:
            # the timestamp token read back: seconds since the epoch over the whole year range
            secs = rp.randrange(-30610224000, 253402300799) if rp.random() < 0.7 else rp.choice(
                [-30610224000, -24298876800, -24298876801, -12219292800, -1, 0, 1, 2**31 - 1, 2**31, 253402300799])
            ops.append(["pcall", "from_format", [str(secs), "X"], {"tz": gen_dt.tz_spec("UTC")}, "timestamp"])
        if c == 0 and twins:
            # the same format (and locale) applied to both twins
            fmt = rp.choice(FULL_FORMATS[:2] + ["YYYY-MM-DD HH:mm:ss.SSSSSS Z zz X", _random_fmt(rp)])
            kw = rp.choice([{}, {"locale": rp.choice(locales)}])
            for j in (len(pool) - 2, len(pool) - 1):
                ops.append(["call", {"$": "p", "i": j}, "format", [fmt], kw])
        actors.append({"name": "T%d" % (c + 1), "ops": ops})
    common.add_nemesis_and_barriers(rw, actors, nem, restart_p=0.15)
    return {"world": world, "pool": pool, "actors": actors, "pool_meta": meta, "step_cap": 40000,
            "horizon": sum(len(a["ops"]) for a in actors) * 80}


# ------------------------------------------------------------------------------- L2
def _viol(viols, rule, a, i, op, rec, detail, facts=None, extra=None):
    viols.append({"oracle": "L2." + rule, "label": common.label(op), "actor": a["name"], "i": i, "op": op,
                  "sim_obs": rec["obs"], "detail": detail, "facts": dict(facts or {}, rule=rule), "sig_extra": extra or []})


def _now_fields(zone, clock):
    return tzdb.render(zone, clock)[0]


def expected_partial(fmt, text_fields, now_f):
    """fields the statement fixes for a partial format: every date field *more significant* than
    all fields the format supplies comes from now-in-zone; absent time fields are 0; supplied
    fields are taken from the string.  Returns dict field -> value (only the asserted ones)."""
    toks = [v for k, v in tokenize(fmt) if k == "tok"]
    have = set()
    for t in toks:
        if t in ("YYYY", "YY", "Y"):
            have.add("year")
        elif t in ("MM", "M", "MMMM", "MMM"):
            have.add("month")
        elif t in ("DD", "D", "Do"):
            have.add("day")
        elif t in ("DDDD", "DDD"):
            have.add("doy")
        elif t in ("HH", "H", "hh", "h"):
            have.add("hour")
        elif t in ("mm", "m"):
            have.add("minute")
        elif t in ("ss", "s"):
            have.add("second")
        elif t.startswith("S"):
            have.add("us")
        elif t == "Q":
            have.add("quarter")
    exp = {}
    y, mo, d, H, M, S, us = text_fields
    if "year" in have:
        exp["year"] = y if "YY" not in toks else None
    elif not (have & {"quarter"}):
        exp["year"] = now_f[0]
    if "month" in have:
        exp["month"] = mo
    elif not (have & {"year", "doy", "quarter"}):
        exp["month"] = now_f[1]
    if "day" in have:
        exp["day"] = d
    elif not (have & {"year", "month", "doy", "quarter"}):
        exp["day"] = now_f[2]
    if "hour" in have:
        if "A" in toks or not ({"hh", "h"} & set(toks)):
            exp["hour"] = H
    else:
        exp["hour"] = 0
    exp["minute"] = M if "minute" in have else 0
    exp["second"] = S if "second" in have else 0
    if "us" in have:
        n = max(len(t) for t in toks if t.startswith("S"))
        exp["us"] = us // 10 ** (6 - n) * 10 ** (6 - n)
    else:
        exp["us"] = 0
    return {k: v for k, v in exp.items() if v is not None}


def l2_check(run):
    sc = run.sc
    meta = sc["pool_meta"]
    viols = []
    n = 0
    for a in sc["actors"]:
        if a.get("nemesis"):
            continue
        for i, op in enumerate(a["ops"]):
            rec = run.recs.get((a["name"], i))
            if rec is None or op[0] in ("nem", "barrier"):
                continue
            o = rec["obs"]
            cands = reg_candidates(run, rec)
            if op[0] == "call" and op[2] == "format":
                m = meta[op[1]["i"]]
                fmt = op[3][0]
                kw = op[4] if len(op) > 4 else {}
                locs = [kw["locale"]] if kw.get("locale") else list(cands["locale"])
                want = [render(fmt, m["f"], m["off"], m["zone"], loc) for loc in locs]
                if None in want:
                    continue
                n += 1
                if o not in want:
                    _viol(viols, "token", a, i, op, rec, {"format": fmt, "want": want[:3], "value": m["f"], "offset": m["off"], "zone": m["zone"]},
                          {"raises": o[1] if isinstance(o, list) and o and o[0] == "EXC" else None})
            elif op[0] == "call" and op[2] in HELPER_FMT:
                m = meta[op[1]["i"]]
                fmt, loc = HELPER_FMT[op[2]]
                locs = [loc] if loc else list(cands["locale"])
                want = [render(fmt, m["f"], m["off"], m["zone"], l) for l in locs]
                if None in want:
                    continue
                n += 1
                if o not in want:
                    _viol(viols, "helper", a, i, op, rec, {"format": fmt, "want": want[:3], "value": m["f"], "zone": m["zone"]})
            elif op[0] == "pcall" and op[1] == "from_format":
                args, kw = op[2], op[3]
                fmt = args[1]
                tzarg = kw["tz"]["k"]
                if isinstance(args[0], dict):
                    # round trip of a full format: source value is the target of the previous op
                    prev = a["ops"][args[0]["i"]]
                    m = meta[prev[1]["i"]]
                    prec = run.recs.get((a["name"], args[0]["i"]))
                    if not prec or not isinstance(prec["obs"], str):
                        continue
                    if " z" in fmt and isinstance(m["zone"], str) and len(tzdb.wall_to_instants(m["zone"], m["f"])) != 1:
                        continue    # a zone name does not say which occurrence of a repeated wall time is meant
                    n += 1
                    ok = isinstance(o, list) and o and o[0] == "DateTime" and o[1] == m["f"] and o[3] == m["off"]
                    if not ok:
                        zname = m["zone"] if isinstance(m["zone"], str) else None
                        _viol(viols, "roundtrip", a, i, op, rec,
                              {"format": fmt, "text": prec["obs"], "want_fields": m["f"], "want_offset": m["off"], "zone": m["zone"]},
                              {"zone_parts": zname.count("/") + 1 if zname and " z" in fmt else None,
                               "raises": o[1] if isinstance(o, list) and o and o[0] == "EXC" else None},
                              extra=["3part" if (zname and " z" in fmt and zname.count("/") == 2) else "x"])
                    continue
                text = args[0]
                if len(op) > 4 and op[4] == "timestamp":
                    n += 1
                    want = tzdb.us_to_fields(int(text) * US)
                    if not (isinstance(o, list) and o and o[0] == "DateTime" and o[1] == want and o[3] == 0):
                        _viol(viols, "timestamp", a, i, op, rec, {"text": text, "want_fields_utc": want})
                    continue
                if len(op) > 5 and op[4] == "weekday":
                    n += 1
                    if not _weekday_ok(o, fmt, op[5], tzarg, cands["clock"]):
                        _viol(viols, "fill_from_now", a, i, op, rec,
                              {"format": fmt, "text": text, "tz": tzarg, "clock_candidates": cands["clock"],
                               "now_in_zone": [_now_fields(tzarg, c) for c in cands["clock"]],
                               "asserted": "the day of now's week (in tz) that falls on the weekday of the string, time as given"},
                              {"raises": o[1] if isinstance(o, list) and o and o[0] == "EXC" else None, "weekday_only": True})
                    continue
                if fmt in PARTIAL and not (len(op) > 4 and op[4] == "mismatch"):
                    src_fields = _parse_back(fmt, text, kw.get("locale"))
                    if src_fields is None:
                        continue
                    n += 1
                    answers = [expected_partial(fmt, src_fields, _now_fields(tzarg, c)) for c in cands["clock"]]
                    got = None
                    if isinstance(o, list) and o and o[0] == "DateTime":
                        got = dict(zip(["year", "month", "day", "hour", "minute", "second", "us"], o[1]))
                    ok = False
                    for ans in answers:
                        if ok:
                            break
                        full = all(k in ans for k in ("year", "month", "day", "hour"))
                        if full:
                            # every field is fixed: the wall time, normalised by the construction rules
                            w = [ans["year"], ans["month"], ans["day"], ans["hour"], ans["minute"], ans["second"], ans["us"]]
                            try:
                                _dt.datetime(*w)
                            except ValueError:
                                # e.g. 2/29 in a non-leap "now" year: a ValueError is the right answer
                                ok = isinstance(o, list) and o and o[0] == "EXC" and o[1] in ("ValueError", "ParserError")
                                continue
                            from .c02 import rule

                            r = rule(tzarg, w, 1, False)
                            if r is None:
                                ok = True
                            elif got is not None:
                                ok = r[0] == "ok" and o[1] == r[1] and o[3] == r[2]
                        elif got is not None:
                            ok = all(got[k] == v for k, v in ans.items())
                            if not ok and all(got[k] == v for k, v in ans.items() if k in ("year", "month", "day")):
                                # fields the statement leaves open are taken from the result; the wall time
                                # so completed may still have been normalised (gap) by the construction rules
                                from .c02 import rule

                                yy, mm_, dd_ = got["year"], got["month"], got["day"]
                                for back in (0, 1):
                                    base = _dt.date(yy, mm_, dd_) - _dt.timedelta(days=back)
                                    w = [ans.get("year", base.year), ans.get("month", base.month), ans.get("day", base.day),
                                         ans.get("hour", got["hour"]), ans["minute"], ans["second"], ans["us"]]
                                    try:
                                        r = rule(tzarg, w, 1, False)
                                    except Exception:
                                        r = None
                                    if r and r[0] == "ok" and o[1] == r[1] and o[3] == r[2]:
                                        ok = True
                        elif "DDD" in fmt and isinstance(o, list) and o and o[0] == "EXC" and o[1] in ("ValueError", "ParserError"):
                            # day 366 of a non-leap year
                            try:
                                ok = _parse_doy(text, fmt) > (366 if _cal.isleap(ans.get("year", 1)) else 365)
                            except Exception:
                                ok = False
                    if ok and got is not None:
                        # and the result is expressed in the requested zone
                        ok = o[4] is not None and (o[4][1] == tzarg or (tzarg == "UTC" and o[4][1] == "UTC"))
                    if not ok:
                        _viol(viols, "fill_from_now", a, i, op, rec,
                              {"format": fmt, "text": text, "tz": tzarg, "clock_candidates": cands["clock"],
                               "now_in_zone": [_now_fields(tzarg, c) for c in cands["clock"]], "asserted": answers[:3]},
                              {"raises": o[1] if isinstance(o, list) and o and o[0] == "EXC" else None})
                else:
                    n += 1
                    if not (isinstance(o, list) and o and o[0] == "EXC" and o[1] == "ValueError"):
                        _viol(viols, "mismatch_must_raise", a, i, op, rec, {"format": fmt, "text": text})
    return viols, {"l2_evals": n}


def _weekday_ok(o, fmt, src_f, tzarg, clocks):
    """weekday-only formats: the result is a day at most 6 days from now's date in the zone, on the
    weekday the string names, at the time the string gives (absent time fields 0), completed by the
    construction rules, in the requested zone."""
    from .c02 import rule

    if not (isinstance(o, list) and o and o[0] == "DateTime"):
        return False
    if not (o[4] is not None and o[4][1] == tzarg):
        return False
    toks = [v for k, v in tokenize(fmt) if k == "tok"]
    H = src_f[3] if ({"HH", "H"} & set(toks)) else 0
    M = src_f[4] if "mm" in toks else 0
    S = src_f[5] if "ss" in toks else 0
    wd = _dt.date(*src_f[:3]).weekday()
    for c in clocks:
        nd = _dt.date(*_now_fields(tzarg, c)[:3])
        for k in range(-6, 7):
            try:
                d = nd + _dt.timedelta(days=k)
            except OverflowError:
                continue
            if d.weekday() != wd:
                continue
            w = [d.year, d.month, d.day, H, M, S, 0]
            r = rule(tzarg, w, 1, False)
            if r is None:
                return True
            if r[0] == "ok" and o[1] == r[1] and o[3] == r[2]:
                return True
    return False


def _parse_back(fmt, text, loc=None):
    """recover the source fields the generator rendered ``text`` from (formats of PARTIAL only)."""
    import re

    rx = ""
    names = []
    for kind, v in tokenize(fmt):
        if kind == "lit":
            rx += re.escape(v)
        else:
            names.append(v)
            rx += r"(\D+?)" if v == "A" else r"(\d+)"
    m = re.fullmatch(rx, text)
    if not m:
        return None
    f = [2000, 1, 1, 0, 0, 0, 0]
    pm = None
    for t, val in zip(names, m.groups()):
        if t in ("YYYY", "Y"):
            f[0] = int(val)
        elif t in ("MM", "M"):
            f[1] = int(val)
        elif t in ("DD", "D"):
            f[2] = int(val)
        elif t in ("HH", "H", "hh", "h"):
            f[3] = int(val)
        elif t in ("mm", "m"):
            f[4] = int(val)
        elif t in ("ss", "s"):
            f[5] = int(val)
        elif t.startswith("S"):
            f[6] = int(val) * 10 ** (6 - len(t))
        elif t == "A":
            pm = val
    if pm is not None:
        is_pm = pm == _locale_data(loc or "en")["translations"]["day_periods"]["pm"]
        f[3] = f[3] % 12 + (12 if is_pm else 0)
    return f


def _parse_doy(text, fmt):
    import re

    toks = [v for k, v in tokenize(fmt) if k == "tok"]
    nums = re.findall(r"\d+", text)
    return int(nums[toks.index("DDDD") if "DDDD" in toks else toks.index("DDD")])


def xb_facts(sc, diff):
    return {}


def probes(run):
    out = {"clock_moved_during_from_format": 0, "locale_flipped_during_default_locale_format": 0}
    cw = [w for w in run.regw if w[2] == "clock" and w[0] > 0]
    lw = [w for w in run.regw if w[2] == "locale" and w[0] > 0]
    for a in run.sc["actors"]:
        for i, op in enumerate(a["ops"]):
            rec = run.recs.get((a["name"], i))
            if not rec:
                continue
            if op[0] == "pcall" and op[1] == "from_format" and any(w[0] < rec["ret"] and w[1] > rec["inv"] for w in cw):
                out["clock_moved_during_from_format"] += 1
            if op[0] == "call" and op[2] == "format" and not (op[4] if len(op) > 4 else {}).get("locale") \
                    and any(w[0] < rec["ret"] and w[1] > rec["inv"] for w in lw):
                out["locale_flipped_during_default_locale_format"] += 1
    return out


def simplify(sc):
    yield from common.simplify_generic(sc)
