"""C06 - interval components are canonical and rebuild the end from the start.

Facet decided by simulation: the component accessors of an Interval *shared between
threads* (remaining_seconds/invert are lazily cached in the instance, years..microseconds
come from the helper backend) stay canonical, and a + (b - a) == b holds under every
interleaving, cache temperature and restart; both helper backends agree on the same history.
"""
from __future__ import annotations

import calendar as _cal

from sim import tzdb

from . import common, gen_dt

ID = "C06"
BUDGET = {"quick": 40.0, "thorough": 600.0}
RUNS = {"quick": 12000}
CROSS_BACKEND = True
LOCS = ["en", "fr", "de", "ru", "pl", "ja", "he", "cs"]
SAME_OFFSET_PAIRS = [("Europe/Paris", "Europe/Madrid"), ("Europe/Paris", "Europe/Berlin"), ("America/New_York", "America/Toronto"),
                     ("Asia/Tokyo", "Asia/Seoul"), ("Asia/Kolkata", "Asia/Colombo"), ("Australia/Sydney", "Australia/Melbourne"),
                     ("America/Los_Angeles", "America/Vancouver"), ("Pacific/Auckland", "Antarctica/McMurdo"),
                     ("America/Argentina/Buenos_Aires", "America/Montevideo"), ("Etc/GMT+12", "Etc/GMT+12")]


def _fields(r, lo=1, hi=9999):
    y = r.choice([r.randint(lo, hi), r.randint(lo, hi), min(max(2000, lo), hi), min(max(2024, lo), hi), min(max(1900, lo), hi)])
    m = r.choice([1, 2, 3, 5, 6, 12, r.randint(1, 12)])
    last = _cal.monthrange(y, m)[1]
    d = r.choice([1, 2, last, last - 1, min(29, last), min(30, last), r.randint(1, last)])
    hh, mm, ss, us = r.choice([(0, 0, 0, 0), (23, 59, 59, 999999), (12, 0, 0, 0), (0, 0, 0, 1),
                               (r.randint(0, 23), r.randint(0, 59), r.randint(0, 59), r.choice([0, r.randint(0, 999999)]))])
    return [y, m, d, hh, mm, ss, us]


def _near(r, f):
    """second endpoint related to the first: month-end / leap / borrow shapes."""
    y, m, d = f[:3]
    k = r.random()
    if k < 0.35:
        dm = r.choice([1, 1, 2, 11, 12, 13, r.randint(0, 40)])
        m2 = m - 1 + dm
        y2, m2 = y + m2 // 12, m2 % 12 + 1
    elif k < 0.5:
        y2, m2 = y + r.choice([1, 4, 100, r.randint(0, 30)]), r.randint(1, 12)
    else:
        y2, m2 = y, m
    if not (1 <= y2 <= 9999):
        y2 = y
    last = _cal.monthrange(y2, m2)[1]
    d2 = r.choice([1, last, min(d, last), min(max(1, d - 1), last), min(d + 1, last), r.randint(1, last)])
    t = r.choice([f[3:], [0, 0, 0, 0], [23, 59, 59, 999999],
                  [r.randint(0, 23), r.randint(0, 59), r.randint(0, 59), r.choice([0, f[6], r.randint(0, 999999)])]])
    return [y2, m2, d2] + list(t)


def _pair(r):
    """-> (a spec, b spec, meta) ; meta['eligible'] iff the statement's precondition holds."""
    kind = r.choice(["utc", "utc", "fixed", "naive", "date", "date", "zone", "zone", "mixed"])
    # Interval.microseconds is derived from a float total of seconds: exact only below 2**33 s
    # (the bound C05 states), so endpoint pairs stay within 250 years of each other
    base = r.choice([r.randint(1, 9700), r.randint(1900, 2000), 1970])
    f1 = _fields(r, base, base + 250)
    f2 = _near(r, f1) if r.random() < 0.75 else _fields(r, base, base + 250)
    if abs(f2[0] - f1[0]) > 250:
        f2[0] = f1[0] + r.randint(0, 250)
        f2[2] = min(f2[2], 28)
    if f2 < f1:
        f1, f2 = f2, f1
    meta = {"kind": kind, "eligible": True}
    if kind == "date":
        return {"$": "date", "f": f1[:3]}, {"$": "date", "f": f2[:3]}, meta
    if kind == "naive":
        return {"$": "naive", "f": f1}, {"$": "naive", "f": f2}, meta
    if kind == "utc":
        return {"$": "dt", "f": f1, "tz": "UTC"}, {"$": "dt", "f": f2, "tz": "UTC"}, meta
    if kind == "fixed":
        o = r.choice(gen_dt.FIXED)
        return {"$": "dt", "f": f1, "tz": o}, {"$": "dt", "f": f2, "tz": o}, meta
    # named zones: keep years where tz rules are explicit
    f1[0] = min(max(f1[0], 1972), 2037)
    f2[0] = min(max(f2[0], 1972), 2037)
    f1[2] = min(f1[2], _cal.monthrange(f1[0], f1[1])[1])
    f2[2] = min(f2[2], _cal.monthrange(f2[0], f2[1])[1])
    if f2 < f1:
        f1, f2 = f2, f1
    z1 = r.choice(gen_dt.DST_ZONES + gen_dt.PLAIN_ZONES + gen_dt.MIDNIGHT_ZONES)
    z2 = z1 if kind == "zone" else r.choice(gen_dt.DST_ZONES + gen_dt.PLAIN_ZONES)
    if kind == "mixed" and r.random() < 0.45:
        # differently named zones that share their UTC offset (the shift to UTC moves both alike)
        z1, z2 = r.choice(SAME_OFFSET_PAIRS)
        if r.random() < 0.5:
            z1, z2 = z2, z1
        # times of day close to midnight so that the shift changes the calendar date
        f1[3:] = r.choice([[0, 30, 0, 0], [1, 0, 0, 0], [23, 30, 0, 0], [0, 0, 0, 0], [22, 15, 0, 1]])
        f2[3:] = r.choice([[0, 30, 0, 0], [1, 0, 0, 0], [23, 30, 0, 0], [0, 0, 0, 0], f1[3:]])
    if kind == "mixed" and z1 != z2 and r.random() < 0.2:
        # the same instant (or one just after it) seen from the second zone: local dates may differ
        ia_ = tzdb.wall_to_instants(z1, f1)
        if ia_:
            f2 = tzdb.render(z2, ia_[-1] + r.choice([0, 0, 0, 1, 10**6, 3600 * 10**6, 86400 * 10**6]))[0]
    if kind == "zone" and r.random() < 0.25:
        # start on (either occurrence of) a repeated wall time of the zone, end shortly after or later
        trans = [t for t in tzdb.transitions(z1) if t[2] < t[1] and 1973 <= tzdb.us_to_fields(t[0] * 10**6)[0] <= 2036]
        if trans:
            t, o0, o1 = r.choice(trans)
            w = tzdb.us_to_fields((t + o1 + r.randrange(0, o0 - o1)) * 10**6)
            f1 = w
            f2 = tzdb.us_to_fields(tzdb.naive_us(w) + r.choice([2 * 3600, 5 * 3600, 20 * 3600, 3 * 86400, 40 * 86400]) * 10**6 + r.randrange(0, 3600) * 10**6)
    fold_a = r.randrange(2)
    a = {"$": "dt", "f": f1, "tz": z1, "fold": fold_a}
    b = {"$": "dt", "f": f2, "tz": z2}
    try:
        ia, ib = tzdb.wall_to_instants(z1, f1), tzdb.wall_to_instants(z2, f2)
        ok = len(ia) >= 1 and len(ib) == 1
        if ok:
            inst_a = ia[-1] if (fold_a and len(ia) == 2) else ia[0]
            ok = inst_a <= ib[0]
            if len(ia) == 1:
                a["fold"] = 1
        if ok and kind == "zone":
            ok = tzdb.render(z1, inst_a)[1] == tzdb.render(z2, ib[0])[1]
    except Exception:
        ok = False
    meta["eligible"] = bool(ok) and kind == "zone"
    meta["mixed"] = kind == "mixed" and bool(ok) and z1 != z2
    return a, b, meta


def _other_zone_view(r, m):
    """an Interval over the same two instants as pool interval m, expressed in another zone"""
    try:
        za, zb = m["a"]["tz"], m["b"]["tz"]
        ia = tzdb.wall_to_instants(za, m["a"]["f"])
        ib = tzdb.wall_to_instants(zb, m["b"]["f"])
        if not ia or not ib:
            return None
        ta = ia[-1] if (m["a"].get("fold", 1) and len(ia) == 2) else ia[0]
        tb = ib[-1]
        z = r.choice(["UTC", "Asia/Tokyo", "America/New_York", 19800])
        if z == za:
            z = "UTC" if za != "UTC" else "Asia/Tokyo"
        fa, fb = tzdb.render(z, ta), tzdb.render(z, tb)
        return {"$": "iv", "a": {"$": "dt", "f": fa[0], "tz": z, "fold": fa[2]}, "b": {"$": "dt", "f": fb[0], "tz": z, "fold": fb[2]}, "abs": False}
    except Exception:
        return None


def gen(rp, rw, tier):
    pool, meta = [], []
    for _ in range(rp.choice([1, 1, 2, 2, 3])):
        a, b, m = _pair(rp)
        how = rp.choice(["sub", "iv", "diff"])
        rev = rp.random() < 0.25
        x, y = (b, a) if rev else (a, b)
        if how == "sub":
            spec = {"$": "sub", "a": y, "b": x}
        elif how == "iv":
            spec = {"$": "iv", "a": x, "b": y, "abs": rp.random() < 0.15}
        else:
            spec = {"$": "call", "o": x, "m": "diff", "a": [y, rp.random() < 0.3]}
        m.update({"a": a, "b": b, "reversed": rev, "how": how,
                  "absolute": bool(spec.get("abs")) or (how == "diff" and spec["a"][1])})
        pool.append(spec)
        meta.append(m)
    locales = rw.sample(LOCS, 3)
    actors = []
    for c in range(rw.choice([2, 2, 3, 3, 4])):
        ops = []
        for _ in range(rw.choice([1, 2, 2, 3, 4, 6])):
            i = rp.randrange(len(pool))
            T = {"$": "p", "i": i}
            m = meta[i]
            x = rp.random()
            if x < 0.2:
                ops.append(["get", T, rp.choice(["remaining_seconds", "remaining_seconds", "hours", "minutes", "years", "months", "weeks",
                                                 "remaining_days", "microseconds", "invert", "days", "seconds"])])
            elif x < 0.3:
                ops.append(["multi", T, rp.sample(["remaining_seconds", "hours", "minutes", "years", "months", "weeks", "remaining_days",
                                                   "microseconds", "invert"], rp.randint(2, 5))])
            elif x < 0.42:
                ops.append(["obs", T])
            elif x < 0.56:
                ops.append(["bin", "add", m["a"] if not m["reversed"] or m["absolute"] else m["b"], T])
            elif x < 0.64:
                ops.append(["add_back", m["a"] if not m["reversed"] or m["absolute"] else m["b"], T])
            elif x < 0.72:
                ops.append(["iv_sym", T])
            elif x < 0.78:
                ops.append(["iv_inm", T])
            elif x < 0.84:
                ops.append(rp.choice([["un", "repr", T], ["call", T, "in_words", [], {"locale": rp.choice(locales + [None])}],
                                      ["call", T, "as_duration"], ["call", T, "total_seconds"], ["call", T, "in_days"],
                                      ["call", T, "in_weeks"], ["call", T, "in_hours"], ["call", T, "in_seconds"]]))
            elif x < 0.92:
                ops.append(rp.choice([["copy", T], ["deepcopy", T], ["pickle", T, rp.randint(0, 5)], ["un", "abs", T], ["un", "neg", T]]))
                if rp.random() < 0.5:
                    ops.append(["obs", {"$": "r", "i": len(ops) - 1}])
            elif m.get("mixed"):
                ops.append(["utc_pair", m["a"], m["b"]])
            elif m["kind"] in ("utc", "fixed", "zone") and rp.random() < 0.6:
                v = _other_zone_view(rp, m)
                if v is not None:
                    ops.append(["obs", v])
                else:
                    ops.append(["obs", T])
            else:
                ops.append(["obs", T])
        actors.append({"name": "T%d" % (c + 1), "ops": ops})
    world = {"locale": rw.choice(locales)}
    nem = []
    if rw.random() < 0.3:
        for _ in range(rw.randint(1, 2)):
            nem.append(rw.choice([["nem", "locale", rw.choice(locales)], ["nem", "clear_zone_cache"]]))
    common.add_nemesis_and_barriers(rw, actors, nem, restart_p=0.15)
    return {"world": world, "pool": pool, "actors": actors, "pool_meta": meta, "step_cap": 30000,
            "horizon": sum(len(a["ops"]) for a in actors) * 40}


# ------------------------------------------------------------------------------- L2
def _canonical(comps):
    y, m, w, d, h, mi, s, us = comps
    bad = []
    if min(comps) < 0:
        bad.append("negative")
    if not (0 <= m <= 11):
        bad.append("months")
    if not (0 <= w * 7 + d <= 30) or not (0 <= d <= 6):
        bad.append("days")
    if not (0 <= h <= 23 and 0 <= mi <= 59 and 0 <= s <= 59 and 0 <= us <= 999999):
        bad.append("time")
    return bad


def _end_obs_matches(robs, bspec):
    """does the observed value denote the end point b (same fields)?"""
    if not isinstance(robs, list) or not robs:
        return False
    if bspec["$"] == "date":
        return robs[0] == "Date" and robs[1] == bspec["f"]
    return robs[0] == "DateTime" and robs[1] == bspec["f"]


def l2_check(run):
    sc = run.sc
    meta = sc["pool_meta"]
    viols = []
    n = 0

    def bad(rec, a, i, op, rule, detail, m):
        viols.append({"oracle": "L2." + rule, "label": common.label(op), "actor": a["name"], "i": i, "op": op,
                      "sim_obs": rec["obs"], "detail": dict(detail, a=m["a"], b=m["b"], how=m["how"], reversed=m["reversed"]),
                      "facts": {"kind": m["kind"], "rule": rule, "shape": _shape(m)}, "sig_extra": [_shape(m)]})

    for a in sc["actors"]:
        if a.get("nemesis"):
            continue
        for i, op in enumerate(a["ops"]):
            rec = run.recs.get((a["name"], i))
            if rec is None or op[0] in ("nem", "barrier"):
                continue
            tgt = op[1] if op[0] in ("obs", "iv_sym", "iv_inm", "get") else (op[2] if op[0] == "add_back" else (op[3] if op[0] == "bin" else None))
            if op[0] == "utc_pair":
                n += 1
                o = rec["obs"]
                if isinstance(o, list) and o[0] == "seq" and len(o) == 3 and isinstance(o[1], list) and isinstance(o[2], list) \
                        and o[1][0] == "Interval" and o[2][0] == "Interval":
                    if o[1][4] != o[2][4]:
                        viols.append({"oracle": "L2.utc_decomposition", "label": "utc_pair", "actor": a["name"], "i": i, "op": op,
                                      "sim_obs": [o[1][4], o[2][4]], "detail": {"a": op[1], "b": op[2]},
                                      "facts": {"rule": "utc_decomposition", "utc_shift_crosses_day": _crosses_month(op[1]) or _crosses_month(op[2]),
                                                "rust_shift_edge": bool(_rust_shift_edge(op[1]) or _rust_shift_edge(op[2]))}})
                continue
            if not (isinstance(tgt, dict) and tgt.get("$") == "p"):
                continue
            m = meta[tgt["i"]]
            if not m["eligible"]:
                continue
            o = rec["obs"]
            forward = (not m["reversed"]) or m["absolute"]
            if op[0] == "obs" and isinstance(o, list) and o and o[0] == "Interval":
                n += 1
                comps = o[4]
                c = comps if forward else [-x for x in comps]
                b = _canonical(c)
                if b:
                    bad(rec, a, i, op, "canonical", {"violates": b, "components": comps}, m)
            elif op[0] in ("bin", "add_back"):
                # the statement promises a + (b - a) == b for a <= b only (month arithmetic is not symmetric)
                if not forward or m["absolute"] and m["reversed"]:
                    continue
                n += 1
                if not _end_obs_matches(o, m["b"]):
                    bad(rec, a, i, op, "rebuild", {"want_end": m["b"]["f"]}, m)
            elif op[0] == "iv_sym":
                n += 1
                if isinstance(o, list) and o[0] == "seq" and len(o) == 3 and isinstance(o[1], list) and isinstance(o[2], list) and o[2][0] == "Interval":
                    if [-x for x in o[1][4]] != o[2][4] and not m["absolute"]:
                        bad(rec, a, i, op, "negation", {"forward": o[1][4], "reversed": o[2][4]}, m)
                elif not m["absolute"]:
                    bad(rec, a, i, op, "negation", {"obs": "not two intervals"}, m)
            elif op[0] == "iv_inm":
                n += 1
                if not (isinstance(o, list) and o[0] == "seq" and o[3] == 12 * o[1] + o[2] and o[4] == o[1]):
                    bad(rec, a, i, op, "in_months", {}, m)
    return viols, {"l2_evals": n}


def _endpoint_value(spec):
    """(wall fields, UTC offset) of the endpoint as pendulum constructs it: a skipped wall time is
    moved by the width of the gap (forward for fold=1, backward for fold=0)."""
    import datetime as _dt

    z, f, fold = spec["tz"], spec["f"], spec.get("fold", 1)
    ts = tzdb.wall_to_instants(z, f)
    if ts:
        t = ts[-1] if fold else ts[0]
    else:
        o = _dt.datetime(*f, tzinfo=tzdb.tzinfo(z), fold=1 if fold == 0 else 0).utcoffset()
        t = tzdb.naive_us(f) - (o.days * 86400 + o.seconds) * 10**6
    fields, off, _ = tzdb.render(z, t)
    return t, fields, off


def _crosses_month(spec):
    """is the endpoint's UTC calendar date different from its local one?"""
    try:
        t, fields, _ = _endpoint_value(spec)
        return tzdb.us_to_fields(t)[:3] != fields[:3]
    except Exception:
        return None


def _rust_shift_edge(spec):
    """does the hand-written UTC shift of the compiled precise_diff leave the calendar for this
    endpoint?  (It moves the day by +-1 without month roll-over and tests `> 24`/`> 60` where
    `>=` is meant, so a shifted hour of exactly 24 - or minute/second of exactly 60 - or a day
    of 0 / days_in_month+1 is carried as is.)  This is the input class of the open known
    finding; a disagreement outside it is a new violation."""
    try:
        _, fields, off = _endpoint_value(spec)
        off = int(off)
    except Exception:
        return None
    spec = {"f": fields}
    if off == 0:
        return False
    y, mo, d, h, mi, se = spec["f"][:6]

    def tdiv(a, b):            # Rust integer division truncates toward zero
        q = abs(a) // b
        return q if a >= 0 else -q

    h -= tdiv(off, 3600)
    off -= tdiv(off, 3600) * 3600
    mi -= tdiv(off, 60)
    off -= tdiv(off, 60) * 60
    se -= off
    edge = False
    if se < 0:
        se += 60
        mi -= 1
    elif se > 60:
        se -= 60
        mi += 1
    elif se == 60:
        edge = True
    if mi < 0:
        mi += 60
        h -= 1
    elif mi > 60:
        mi -= 60
        h += 1
    elif mi == 60:
        edge = True
    if h < 0:
        h += 24
        d -= 1
    elif h > 24:
        h -= 24
        d += 1
    elif h == 24:
        edge = True
    if d < 1 or d > _cal.monthrange(y, mo)[1]:
        edge = True
    return edge


def xb_facts(sc, diff):
    """classify a compiled-vs-pure-Python disagreement for known-finding matching."""
    meta = sc["pool_meta"]
    mixed = [m for m in meta if m["kind"] == "mixed"]
    return {"mixed_zone_crossing_day": bool(mixed) and any(_crosses_month(m["a"]) or _crosses_month(m["b"]) for m in mixed),
            "rust_shift_edge": bool(mixed) and any(_rust_shift_edge(m["a"]) or _rust_shift_edge(m["b"]) for m in mixed)}


def _shape(m):
    """input class of an endpoint pair (for known-finding signatures): how the day-of-month
    of the end relates to the start and to the month lengths involved."""
    a, b = m["a"]["f"], m["b"]["f"]
    la = _cal.monthrange(a[0], a[1])[1]
    lb = _cal.monthrange(b[0], b[1])[1]
    pm, py = (b[1] - 1, b[0]) if b[1] > 1 else (12, b[0] - 1)
    lp = _cal.monthrange(py, pm)[1] if py >= 1 else 31
    tod_borrow = len(a) > 3 and tuple(b[3:]) < tuple(a[3:])
    dd = b[2] - a[2] - (1 if tod_borrow else 0)
    if dd >= 0:
        return "no-day-borrow"
    if dd == lb - lp:
        return "day-borrow-equals-month-length-difference(end-of-month=%s)" % (b[2] == lb)
    return "day-borrow(start_day>%d=%s)" % (lp, a[2] > lp) + ("" if la else "")


def probes(run):
    out = {"preempted_in_interval_accessor": 0}
    for (fn, _l), k in run.sched.sites.items():
        if fn in ("remaining_seconds", "invert", "hours", "minutes", "weeks", "remaining_days", "_add_timedelta_", "in_words"):
            out["preempted_in_interval_accessor"] += k
    return out


def simplify(sc):
    yield from common.simplify_generic(sc)
