"""C18 - human-readable differences are total, localized and correctly directed.

Facet decided by simulation: the only part of pendulum whose *meaning* is defined by the
clock - "ago / from now" relative to **now** - under a simulated clock that the nemesis
moves between and during calls, with the locale selected explicitly or through the
process-wide default another actor flips, the local zone mocked or discovered, cold or warm
locale caches, and with the Interval/Duration lazy slots read by the formatter while other
threads use the same object.
"""
from __future__ import annotations

import functools
import importlib
import re

from sim import tzdb
from sim.engine import reg_candidates

from . import common, gen_dt

ID = "C18"
BUDGET = {"quick": 40.0, "thorough": 600.0}
RUNS = {"quick": 20000}

LOCALES = ["cs", "da", "de", "en", "en_gb", "en_us", "es", "fa", "fo", "fr", "he", "id", "it", "ja", "ko", "lt",
           "nb", "nl", "nn", "pl", "pt_br", "ru", "sk", "sv", "tr", "ua", "zh"]
UNITS = ["year", "month", "week", "day", "hour", "minute", "second"]
ULEN = {"second": 1.0, "minute": 60.0, "hour": 3600.0, "day": 86400.0, "week": 604800.0,
        "month": 30.436875 * 86400, "year": 365.2425 * 86400}
TOKENS = ["MMMM", "MMM", "dddd", "ddd", "dd", "Do", "do", "Mo", "Qo", "wo", "DDDo", "e", "eo", "A", "LT", "LTS", "L", "LL", "LLL", "LLLL"]
DATE_TOKENS = ["MMMM", "MMM", "dddd", "ddd", "dd", "Do", "do", "Mo", "Qo", "wo", "DDDo", "e", "eo", "L", "LL"]

US = 10**6
BIG_SHIFT = ["Antarctica/Troll", "Antarctica/Casey", "Antarctica/Troll"]
# elapsed seconds that straddle every rounding threshold of the formatter and CLDR plural classes
DELTAS = [0, 1, 2, 5, 9, 10, 11, 12, 21, 30, 59, 60, 61, 119, 120, 121, 300, 3599, 3600, 3601, 7200, 21 * 3600, 22 * 3600 - 1,
          22 * 3600, 86399, 86400, 86401, 2 * 86400, 3 * 86400, 4 * 86400, 5 * 86400, 6 * 86400, 7 * 86400 - 1, 7 * 86400,
          10 * 86400, 11 * 86400, 13 * 86400, 14 * 86400, 21 * 86400, 22 * 86400, 25 * 86400, 26 * 86400, 27 * 86400, 28 * 86400,
          30 * 86400, 31 * 86400, 45 * 86400, 59 * 86400, 61 * 86400, 100 * 86400, 180 * 86400, 200 * 86400, 340 * 86400,
          350 * 86400, 364 * 86400, 365 * 86400, 366 * 86400, 400 * 86400, 550 * 86400, 600 * 86400, 730 * 86400, 800 * 86400,
          5 * 365 * 86400, 21 * 365 * 86400, 101 * 365 * 86400]


def _delta(r):
    d = r.choice(DELTAS)
    if r.random() < 0.2:
        d = r.randrange(0, 3 * 365 * 86400)
    return d * r.choice([-1, 1]) * US + r.choice([0, 0, 1, -1, 500000])


def gen(rp, rw, tier):
    # BIG_SHIFT: clocks that go back (or forward) by more than an hour - the two occurrences of a repeated
    # wall time are then further apart than any "at most an hour" shortcut assumes
    zone_clock = rw.choice(gen_dt.DST_ZONES + gen_dt.MIDNIGHT_ZONES + ["UTC"] + BIG_SHIFT)
    clock = gen_dt.pick_instant(rw, zone_clock)
    locales = rw.sample(LOCALES, rw.choice([2, 3, 4]))
    mock = rw.choice([None, None, zone_clock, rw.choice(gen_dt.DST_ZONES)])
    world = {"clock": clock, "locale": rw.choice(locales), "ctz": rw.choice(["UTC", "UTC", "America/New_York", "Asia/Tokyo", "Europe/Paris"])}
    if mock:
        world["mock_tz"] = mock
    clocks = [clock]
    nem = []
    if rw.random() < 0.7:
        for _ in range(rw.randint(1, 4)):
            k = rw.random()
            if k < 0.45:
                c2 = clocks[-1] + rw.choice([1, -1, US, 60 * US, 3600 * US, 86400 * US, -86400 * US, rw.randrange(-10**13, 10**13)])
                clocks.append(c2)
                nem.append(["nem", "clock", c2])
            elif k < 0.85:
                nem.append(["nem", "locale", rw.choice(locales + ["xx", "en_zz"]) if rw.random() < 0.15 else rw.choice(locales)])
            else:
                nem.append(["nem", "mock_tz", rw.choice([None, zone_clock, "Asia/Tokyo"])])
    pool, meta = [], []

    def add_dt():
        z = rp.choice([zone_clock, zone_clock, "UTC", mock or "UTC", gen_dt.pick_zone(rp, allow_fixed=True)])
        inst = rp.choice(clocks) + _delta(rp)
        lo, hi = tzdb.year_start_us(3), tzdb.year_start_us(9990)
        inst = max(min(inst, hi), lo)
        f, _, _ = tzdb.render(z, inst)
        ts = tzdb.wall_to_instants(z, f)
        spec = {"$": "dt", "f": f, "tz": z, "fold": 0 if (len(ts) == 2 and inst == ts[0]) else 1}
        pool.append(spec)
        meta.append({"kind": "dt", "inst": inst, "zone": z})
        return len(pool) - 1

    def add_date():
        f, _, _ = tzdb.render(world["ctz"], rp.choice(clocks))
        import datetime as _dt

        d = _dt.date(*f[:3]) + _dt.timedelta(days=rp.choice([0, 1, -1, 2, -3, 6, 7, -8, 13, 26, 27, -28, 30, 31, 45, 200, -340, 350, 365, 366, -800, rp.randint(-2000, 2000)]))
        pool.append({"$": "date", "f": [d.year, d.month, d.day]})
        meta.append({"kind": "date", "date": [d.year, d.month, d.day]})
        return len(pool) - 1

    def add_dur():
        from .c09 import dur_kwargs

        pool.append({"$": "dur", "kw": dur_kwargs(rp)})
        meta.append({"kind": "dur"})
        return len(pool) - 1

    def add_iv():
        z = rp.choice([zone_clock, "UTC"])
        i1 = rp.choice(clocks) + _delta(rp)
        i2 = i1 + _delta(rp)
        a = {"$": "dt", "f": tzdb.render(z, i1)[0], "tz": z}
        b = {"$": "dt", "f": tzdb.render(z, i2)[0], "tz": z}
        pool.append({"$": "iv", "a": a, "b": b, "abs": rp.random() < 0.3})
        meta.append({"kind": "iv"})
        return len(pool) - 1

    for _ in range(rp.choice([2, 3, 4])):
        rp.choice([add_dt, add_dt, add_dt, add_date, add_dur, add_iv])()
    if rp.random() < 0.12:
        # two values whose zones are more than a day apart (+14:00 against -11:00 / -12:00) and whose
        # instants are closer than that: the one that is *earlier* carries the *later* calendar date
        base = rp.choice(clocks) + _delta(rp)
        base = max(min(base, tzdb.year_start_us(9990)), tzdb.year_start_us(3))
        for z, d in ((rp.choice(["Pacific/Kiritimati", 50400, 49500]), 0),
                     (rp.choice(["Etc/GMT+12", "Pacific/Pago_Pago", -43200, -39600]), rp.choice([-1, 1]) * rp.randrange(1, 3500 * 10**6))):
            inst = base + d
            f, _, _ = tzdb.render(z, inst)
            ts = tzdb.wall_to_instants(z, f)
            pool.append({"$": "dt", "f": f, "tz": z, "fold": 0 if (len(ts) == 2 and inst == ts[0]) else 1})
            meta.append({"kind": "dt", "inst": inst, "zone": z})
    if not any(m["kind"] == "dt" for m in meta):
        add_dt()
    dts = [i for i, m in enumerate(meta) if m["kind"] == "dt"]
    actors = []
    for c in range(rw.choice([1, 2, 2, 3])):
        ops = []
        for _ in range(rw.choice([1, 2, 3, 4, 5])):
            i = rp.randrange(len(pool))
            T = {"$": "p", "i": i}
            m = meta[i]
            kw = {}
            if rp.random() < 0.75:
                kw["locale"] = rp.choice(locales + [rp.choice(LOCALES)])
            if rp.random() < 0.3:
                kw["absolute"] = True
            if m["kind"] in ("dt", "date"):
                x = rp.random()
                if x < 0.55:
                    ops.append(["call", T, "diff_for_humans", [], kw])
                elif x < 0.8:
                    others = [j for j, mm in enumerate(meta) if mm["kind"] == m["kind"]]
                    ops.append(["call", T, "diff_for_humans", [{"$": "p", "i": rp.choice(others)}], kw])
                elif x < 0.9:
                    toks = TOKENS if m["kind"] == "dt" else DATE_TOKENS
                    ops.append(["call", T, "format", [rp.choice(toks)], {"locale": kw.get("locale", rp.choice(LOCALES))}])
                else:
                    ops.append(["call", {"$": "call", "o": T, "m": "time", "a": []} if m["kind"] == "dt" else T, "diff_for_humans", [], kw])
            elif m["kind"] == "dur":
                kw.pop("absolute", None)
                if rp.random() < 0.3:
                    kw["separator"] = rp.choice([", ", " ", " - "])
                ops.append(["call", T, "in_words", [], kw])
            else:
                x = rp.random()
                kw2 = {k: v for k, v in kw.items() if k == "locale"}
                if x < 0.5:
                    ops.append(["call", T, "in_words", [], kw2])
                else:
                    ops.append(["pcall", "format_diff", [T, rp.random() < 0.5, bool(kw.get("absolute")), kw.get("locale")]])
        actors.append({"name": "T%d" % (c + 1), "ops": ops})
    common.add_nemesis_and_barriers(rw, actors, nem, restart_p=0.15)
    return {"world": world, "pool": pool, "actors": actors, "pool_meta": meta, "step_cap": 30000,
            "horizon": sum(len(a["ops"]) for a in actors) * 60}


# ---------------------------------------------------------------- templates from locale data
def _tre(t):
    out, seen = "", False
    for p in re.split(r"(\{[^}]*\})", t):
        if re.fullmatch(r"\{[^}]*\}", p):
            out += ("(?P<c>.+?)" if not seen else ".+?")
            seen = True
        else:
            out += re.escape(p)
    return re.compile("^" + out + "$", re.S)


@functools.lru_cache(maxsize=None)
def _locale_data(loc):
    from pendulum.locales.locale import Locale

    norm = Locale.normalize_locale(loc)
    try:
        m = importlib.import_module("pendulum.locales.%s.locale" % norm)
    except ImportError:
        m = importlib.import_module("pendulum.locales.%s.locale" % norm.split("_")[0])
    return m.locale


@functools.lru_cache(maxsize=None)
def templates(loc, mode, direction, absolute):
    """all (unit, plural class, regex) a correct phrase of this mode/direction may match - from the
    locale's own data, never through DifferenceFormatter."""
    data = _locale_data(loc)
    tr = data["translations"]
    cu = data.get("custom", {})
    few = cu.get("units", {}).get("few_second")
    res = []
    if absolute:
        for u in UNITS:
            for cls, t in tr["units"][u].items():
                res.append((u, cls, _tre(t)))
        if few:
            res.append(("few", None, re.compile("^" + re.escape(few) + "$")))
        return tuple(res)
    if mode == "now":
        for u in UNITS:
            for cls, t in tr["relative"][u][direction].items():
                res.append((u, cls, _tre(t)))
        wrap = cu.get("ago" if direction == "past" else "from_now")
    else:
        wrap = cu.get("before" if direction == "past" else "after")
        ur = cu.get("units_relative", {})
        for u in UNITS:
            forms = list(tr["units"][u].items())
            if u in ur and direction in ur[u]:
                forms += list(ur[u][direction].items())
            for cls, t in forms:
                if wrap:
                    full = re.sub(r"\{[^}]*\}", lambda m: "\x00", wrap).replace("\x00", t)
                    res.append((u, cls, _tre(full)))
    if few and wrap:
        w = re.sub(r"\{[^}]*\}", lambda m: "\x00", wrap).replace("\x00", few)
        res.append(("few", None, re.compile("^" + re.escape(w) + "$")))
    return tuple(res)


def phrase_ok(s, loc, mode, absolute, direction, elapsed_s):
    """None if the phrase is acceptable, else a reason."""
    if not isinstance(s, str) or not s:
        return "empty"
    if "{" in s or "}" in s:
        return "placeholder"
    dirs = [direction] if direction else ["past", "future"]
    best = "no-template-of-the-right-direction"
    for d in dirs:
        for unit, cls, rx in templates(loc, mode, d, absolute):
            m = rx.match(s)
            if not m:
                continue
            if unit == "few":
                if elapsed_s is None or abs(elapsed_s) < 12:
                    return _wrong_direction(s, loc, mode, absolute, direction)
                best = "magnitude"
                continue
            if elapsed_s is None:
                return None
            try:
                cnt = int(m.group("c"))
            except (IndexError, ValueError, TypeError):
                return None
            if abs(cnt * ULEN[unit] - abs(elapsed_s)) <= ULEN[unit] * 1.02:
                # localized: the form is the one of the printed count's plural class (the locale's
                # own rule); forms of several classes may be textually identical, so keep looking
                try:
                    want_cls = _locale_data(loc)["plural"](cnt)
                except Exception:
                    want_cls = cls
                if cls is not None and want_cls != cls:
                    best = "plural-class"
                    continue
                return _wrong_direction(s, loc, mode, absolute, direction)
            if best != "plural-class":
                best = "magnitude"
    return best


def _wrong_direction(s, loc, mode, absolute, direction):
    """a phrase of a known direction must not also read as the opposite one.  On the shipped data
    no template of one direction matches a phrase of the other (checked for all 27 locales, both
    modes), so a match here means the locale data itself confuses the two markers."""
    if absolute or direction is None:
        return None
    other = "future" if direction == "past" else "past"
    for _unit, _cls, rx in templates(loc, mode, other, False):
        if rx.match(s):
            return "matches-the-opposite-direction"
    return None


# ------------------------------------------------------------------------------- L2
def _locs(op_kw_locale, cands):
    if op_kw_locale is not None:
        return [op_kw_locale]
    return list(cands["locale"])


def l2_check(run):
    sc = run.sc
    meta = sc["pool_meta"]
    viols = []
    n = 0
    ctz = sc["world"].get("ctz", "UTC")
    for a in sc["actors"]:
        if a.get("nemesis"):
            continue
        for i, op in enumerate(a["ops"]):
            rec = run.recs.get((a["name"], i))
            if rec is None or op[0] in ("nem", "barrier"):
                continue
            o = rec["obs"]
            exc = o[1] if isinstance(o, list) and o and o[0] == "EXC" else None
            label = common.label(op)
            if label not in ("call:diff_for_humans", "call:in_words", "call:format", "pcall:format_diff"):
                continue
            cands = reg_candidates(run, rec)
            kw = (op[4] if len(op) > 4 else {}) if op[0] == "call" else {}
            if op[0] == "pcall":
                kw = {"locale": op[2][3], "absolute": op[2][2]}
            locs = _locs(kw.get("locale"), cands)
            n += 1
            # totality: a non-empty, fully substituted string, never an exception
            if exc is not None or not isinstance(o, str) or not o or "{" in o or "}" in o:
                viols.append({"oracle": "L2.total", "label": label, "actor": a["name"], "i": i, "op": op, "sim_obs": o,
                              "detail": {"locales": locs}, "sig_extra": [locs[0] if len(locs) == 1 else "*", exc],
                              "facts": {"locale": locs[0] if len(locs) == 1 else None, "raises": exc,
                                        "token": op[3][0] if label == "call:format" else None}})
                continue
            if label != "call:diff_for_humans":
                continue
            tgt = op[1]
            if not (isinstance(tgt, dict) and tgt.get("$") == "p"):
                continue
            m = meta[tgt["i"]]
            other = op[3][0] if op[3] else None
            mode = "other" if other is not None else "now"
            absolute = bool(kw.get("absolute"))
            pairs = []      # (direction, elapsed seconds) for every admissible reference
            if m["kind"] == "dt":
                refs = [meta[other["i"]]["inst"]] if other is not None else list(cands["clock"])
                for tr_ in refs:
                    d = m["inst"] - tr_
                    pairs.append((None if d == 0 else ("past" if d < 0 else "future"), d / US))
            elif m["kind"] == "date":
                import datetime as _dt

                if other is not None:
                    refs = [_dt.date(*meta[other["i"]]["date"])]
                else:
                    refs = [_dt.date(*tzdb.render(ctz, c)[0][:3]) for c in cands["clock"]]
                for rd in refs:
                    dd = (_dt.date(*m["date"]) - rd).days
                    pairs.append((None if dd == 0 else ("past" if dd < 0 else "future"), dd * 86400.0))
            else:
                continue
            reasons = []
            ok = False
            for loc in locs:
                for direction, el in pairs:
                    why = phrase_ok(o, loc, mode, absolute, direction, el)
                    if why is None:
                        ok = True
                        break
                    reasons.append(why)
                if ok:
                    break
            if not ok:
                cls = "plain"
                if m["kind"] == "dt":
                    try:
                        cls = _endpoint_class(m, meta[other["i"]] if other is not None else None, cands)
                    except Exception:
                        cls = "?"
                viols.append({"oracle": "L2.phrase", "label": label, "actor": a["name"], "i": i, "op": op, "sim_obs": o,
                              "detail": {"locales": locs, "mode": mode, "absolute": absolute, "references": pairs[:4], "why": sorted(set(reasons))},
                              "sig_extra": [sorted(set(reasons))[0] if reasons else "?", cls],
                              "facts": {"locale": locs[0] if len(locs) == 1 else None, "why": sorted(set(reasons))[0] if reasons else None,
                                        "endpoints": cls,
                                        "mode": mode, "absolute": absolute, "type": m["kind"]}})
    return viols, {"l2_evals": n}


def _endpoint_class(m, other_meta, cands):
    """input class of the two endpoints of a DateTime difference (known-finding signatures):
       same-zone-offset-change : both endpoints in the same named zone with different UTC offsets
                                 (components are wall-clock based; includes both folds of a repeated hour)
       mixed-zone-date-shift   : differently named zones and an endpoint whose UTC date differs from
                                 its local date (compiled precise_diff, see C06 known finding)
       plain                   : neither"""
    z1 = m["zone"]
    refs = []
    if other_meta is not None:
        refs.append((other_meta["zone"], other_meta["inst"]))
    else:
        for mz in cands["mock_tz"]:
            for c in cands["clock"]:
                refs.append((mz if mz is not None else "UTC", c))
    out = "plain"
    for z2, t2 in refs:
        if z1 == z2 and isinstance(z1, str):
            if tzdb.offset_at(z1, m["inst"]) != tzdb.offset_at(z2, t2):
                return "same-zone-offset-change"
        elif z1 != z2:
            for z, t in ((z1, m["inst"]), (z2, t2)):
                if tzdb.render(z, t)[0][:3] != tzdb.us_to_fields(t)[:3]:
                    out = "mixed-zone-date-shift"
    return out


def probes(run):
    out = {"clock_moved_during_now_relative_op": 0, "locale_flipped_during_default_locale_op": 0,
           "clock_within_1s_of_instance": 0}
    cw = [w for w in run.regw if w[2] == "clock" and w[0] > 0]
    lw = [w for w in run.regw if w[2] == "locale" and w[0] > 0]
    for a in run.sc["actors"]:
        for i, op in enumerate(a["ops"]):
            rec = run.recs.get((a["name"], i))
            if not rec or op[0] != "call" or op[2] != "diff_for_humans":
                continue
            if not op[3] and any(w[0] < rec["ret"] and w[1] > rec["inv"] for w in cw):
                out["clock_moved_during_now_relative_op"] += 1
            if "locale" not in (op[4] if len(op) > 4 else {}) and any(w[0] < rec["ret"] and w[1] > rec["inv"] for w in lw):
                out["locale_flipped_during_default_locale_op"] += 1
            tgt = op[1]
            if not op[3] and isinstance(tgt, dict) and tgt.get("$") == "p" and run.sc["pool_meta"][tgt["i"]]["kind"] == "dt":
                inst = run.sc["pool_meta"][tgt["i"]]["inst"]
                if any(abs(inst - c) <= US for c in reg_candidates(run, rec)["clock"]):
                    out["clock_within_1s_of_instance"] += 1
    return out


def simplify(sc):
    yield from common.simplify_generic(sc)
