"""C14 - pickle, copy and deepcopy reproduce every pendulum value exactly.

Round-trip fidelity is a function of the value; three facets meet a seam and are claimed:
 * restart: a value that leaves a process as pickle bytes must come back indistinguishable in a
   process that shares *nothing* with the sender (no zone objects, no caches) - the crash/restart
   analogue this library has.  The bytes produced in the simulated (warm, concurrent) process are
   loaded in a fresh fork of the pristine copy of the worker (sim/cold.py).
 * concurrency: copy/deepcopy/pickle of a value *shared between threads* while others read its
   lazily cached component slots (Duration, Interval) or while the nemesis clears the zone cache.
 * identity: the copy may or may not share tzinfo objects with the original (cache history);
   comparing and subtracting copy and original must not depend on it.
"""
from __future__ import annotations

from sim import tzdb

from . import common, gen_dt
from .c09 import dur_kwargs

ID = "C14"
BUDGET = {"quick": 40.0, "thorough": 600.0}
RUNS = {"quick": 20000}
COLD_EVERY = {"quick": 2, "thorough": 1}
US = 10**6


def _ambiguous_dt(r):
    zone = r.choice(gen_dt.DST_ZONES + gen_dt.MIDNIGHT_ZONES)
    trans = [t for t in tzdb.transitions(zone) if t[2] < t[1]]
    if not trans:
        return None
    t, o0, o1 = r.choice(trans)
    w = tzdb.us_to_fields((t + o1 + r.randrange(0, o0 - o1)) * US + r.choice([0, 1, 999999]))
    return {"$": "dt", "f": w, "tz": zone, "fold": r.randrange(2)}


def _value(r):
    k = r.random()
    if k < 0.3:
        if r.random() < 0.12:
            # a zone built from a TZif file (the local zone when TZ names a file): it has no key and
            # the standard library refuses to pickle it, so only copy/deepcopy are exercised on it
            z = r.choice(gen_dt.DST_ZONES)
            inst = gen_dt.pick_instant(r, z, lo_year=1975, hi_year=2035)
            f, _, fold = tzdb.render(z, inst)
            return {"$": "dt_filezone", "f": f, "zone": z, "fold": fold}, "datetime_filezone"
        if r.random() < 0.4:
            v = _ambiguous_dt(r)
            if v:
                return v, "datetime"
        if r.random() < 0.15:
            # straight from the class constructor: fields as given, not normalised
            if r.random() < 0.5:
                z = r.choice(gen_dt.DST_ZONES + gen_dt.MIDNIGHT_ZONES)
                gaps = [(t, o0, o1) for t, o0, o1 in tzdb.transitions(z) if o1 > o0]
                if gaps:
                    t, o0, o1 = r.choice(gaps)
                    w = tzdb.us_to_fields((t + o0) * US + r.randrange(0, (o1 - o0) * US))
                    return {"$": "dt_ctor", "f": w, "tz": z, "fold": r.randrange(2)}, "datetime"
            else:
                inst = r.randrange(tzdb.year_start_us(1975), tzdb.year_start_us(2035))
                off = r.choice([3600, -16200, 19800, 0])
                return {"$": "dt_ctor", "f": tzdb.render(off, inst)[0], "tz": off, "fold": 1}, "datetime"
        zone = gen_dt.pick_zone(r, allow_naive=True)
        spec, _, _, _ = gen_dt.dt_value(r, zone=zone)
        return spec, "datetime"
    if k < 0.38:
        return gen_dt.date_value(r), "date"
    if k < 0.46:
        return {"$": "time", "f": [r.randrange(24), r.randrange(60), r.randrange(60), r.choice([0, 1, 999999, r.randrange(10**6)])]}, "time"
    if k < 0.7:
        return {"$": "dur", "kw": dur_kwargs(r)}, "duration"
    if k < 0.9:
        za = gen_dt.pick_zone(r)
        a, _, ia, _ = gen_dt.dt_value(r, zone=za, how="constructed")
        zb = za if r.random() < 0.6 else gen_dt.pick_zone(r)
        b, _, ib, _ = gen_dt.dt_value(r, zone=zb, how="constructed", instant=ia + r.randrange(-400 * 86400 * US, 400 * 86400 * US))
        if r.random() < 0.25:
            a, b = gen_dt.date_value(r), gen_dt.date_value(r)
        return {"$": "iv", "a": a, "b": b, "abs": r.random() < 0.35}, "interval"
    if k < 0.95:
        return {"$": "tz", "k": r.choice(gen_dt.ALL_NAMED)}, "timezone"
    return r.choice([{"$": "tz", "k": r.choice(gen_dt.FIXED)}, {"$": "fixedtz", "o": r.choice(gen_dt.FIXED), "n": r.choice([None, "XST"])}]), "fixedtimezone"


def _has_repeated(spec):
    """does an interval spec have an endpoint on a repeated wall time?"""
    for k in ("a", "b"):
        e = spec.get(k, {})
        if e.get("$") == "dt" and isinstance(e.get("tz"), str):
            try:
                if len(tzdb.wall_to_instants(e["tz"], e["f"])) == 2:
                    return True
            except Exception:
                return True
    return False


def _named_zones(x, out=None):
    out = set() if out is None else out
    if isinstance(x, dict):
        for k, v in x.items():
            if k in ("tz", "k") and isinstance(v, str) and "/" in v:
                out.add(v)
            else:
                _named_zones(v, out)
    elif isinstance(x, list):
        for v in x:
            _named_zones(v, out)
    return out


def gen(rp, rw, tier):
    pool, meta = [], []
    for _ in range(rp.choice([1, 2, 2, 3])):
        s, kind = _value(rp)
        pool.append(s)
        meta.append({"kind": kind})
    actors = []
    for c in range(rw.choice([2, 2, 3, 3])):
        ops = []
        for _ in range(rw.choice([1, 2, 3, 4])):
            i = rp.randrange(len(pool))
            T = {"$": "p", "i": i}
            kind = meta[i]["kind"]
            x = rp.random()
            if kind == "datetime_filezone":
                ops.append(rp.choice([["copy", T], ["deepcopy", T], ["deepcopy", T], ["obs", T]]))
            elif x < 0.55:
                ops.append(rp.choice([["copy", T], ["deepcopy", T], ["pickle", T, rp.randint(0, 5)], ["pickle", T, rp.randint(0, 5)]]))
                j = len(ops) - 1
                how = ops[j][0]
                proto = ops[j][2] if how == "pickle" else None
                y = rp.random()
                if y < 0.35 and (kind in ("date", "time", "duration")
                                 or (kind == "interval" and (not _has_repeated(pool[i]) or how in ("copy", "deepcopy")))):
                    # the statement's == clause covers date, time, duration and interval values - not
                    # DateTime: PEP 495 makes an aware datetime on a repeated wall time compare unequal to
                    # everything carrying another tzinfo *object*, so equality there is an identity question.
                    # copy/deepcopy keep the endpoints' own tzinfo objects, so an Interval copy is equal even
                    # on a repeated wall time; a pickle round trip may hand out another zone object.
                    ops.append(["eqcopy", T, how] + ([proto] if proto is not None else []))
                elif y < 0.5 and kind == "datetime":
                    ops.append(["subcopy", T, how] + ([proto] if proto is not None else []))   # copy - original: a zero interval
                elif y < 0.6 and kind in ("duration", "interval"):
                    ops.append(["multi", {"$": "r", "i": j}, ["hours", "minutes", "remaining_seconds", "invert"]])
            elif x < 0.8:
                ops.append(["dumps", T, rp.randint(0, 5)])                # leaves the process as bytes
            elif kind in ("duration", "interval"):
                ops.append(rp.choice([["get", T, rp.choice(["hours", "minutes", "remaining_seconds", "invert"])], ["un", "repr", T], ["obs", T]]))
            else:
                ops.append(["obs", T])
        actors.append({"name": "T%d" % (c + 1), "ops": ops})
    nem = []
    if rw.random() < 0.4:
        for _ in range(rw.randint(1, 3)):
            nem.append(["nem", "clear_zone_cache"])
    # the sender's process-wide configuration: often the *local zone is the zone of the values* (the
    # commonest situation there is), another default locale, another week.  None of it may leave the
    # process inside a pickle: the receiver of cold_l2 is configured differently on purpose.
    world = {}
    if rw.random() < 0.4:
        named = sorted(_named_zones(pool))
        world["mock_tz"] = rw.choice(named) if named and rw.random() < 0.8 else rw.choice(gen_dt.DST_ZONES)
        if rw.random() < 0.5:
            world["locale"] = rw.choice(["fr", "de", "ru", "ja"])
            world["week_start"] = rw.randrange(7)
        if rw.random() < 0.5:
            nem.append(["nem", "mock_tz", rw.choice([None, "Asia/Kathmandu", world["mock_tz"]])])
    common.add_nemesis_and_barriers(rw, actors, nem, restart_p=0.2)
    return {"world": world, "pool": pool, "actors": actors, "pool_meta": meta, "observe_pool": "fresh-copy", "step_cap": 30000,
            "horizon": sum(len(a["ops"]) for a in actors) * 40}


# ------------------------------------------------------------------------------- L2
def _same(a, b):
    return a == b


def _input_class(spec, kind):
    """structural class of a value (known-finding signatures)"""
    if kind == "duration":
        kw = spec.get("kw", {})
        parts = []
        if kw.get("years") or kw.get("months"):
            parts.append("years/months")
        if kw.get("weeks") or abs(kw.get("days", 0)) >= 7:
            parts.append("weeks")
        return "duration(" + ",".join(parts) + ")"
    if kind == "datetime" and spec.get("$") == "dt" and isinstance(spec.get("tz"), str):
        try:
            if len(tzdb.wall_to_instants(spec["tz"], spec["f"])) == 2:
                return "datetime(repeated wall time, fold=%s)" % spec.get("fold", 1)
        except Exception:
            pass
    return kind


def l2_check(run):
    sc = run.sc
    meta = sc["pool_meta"]
    viols = []
    n = 0
    for a in sc["actors"]:
        if a.get("nemesis"):
            continue
        for i, op in enumerate(a["ops"]):
            rec = run.recs.get((a["name"], i))
            if rec is None or op[0] in ("nem", "barrier"):
                continue
            o = rec["obs"]
            if op[0] in ("copy", "deepcopy", "pickle") and isinstance(op[1], dict) and op[1].get("$") == "p":
                idx = op[1]["i"]
                want = run.pool_obs[idx]
                n += 1
                if not _same(o, want):
                    cls = _input_class(sc["pool"][idx], meta[idx]["kind"])
                    viols.append({"oracle": "L2.roundtrip", "label": op[0], "actor": a["name"], "i": i, "op": op, "sim_obs": o,
                                  "detail": {"original": want, "value": sc["pool"][idx]},
                                  "facts": {"how": op[0], "class": cls}, "sig_extra": [cls]})
            elif op[0] == "eqcopy":
                idx = op[1]["i"]
                n += 1
                if not (isinstance(o, list) and o[0] == "seq" and o[1] is True and o[2] is True and o[3] in (True, None)):
                    cls = _input_class(sc["pool"][idx], meta[idx]["kind"])
                    viols.append({"oracle": "L2.equal", "label": "eqcopy:" + op[2], "actor": a["name"], "i": i, "op": op, "sim_obs": o,
                                  "detail": {"value": sc["pool"][idx], "how": op[2]}, "facts": {"how": op[2], "class": cls}, "sig_extra": [cls]})
            elif op[0] == "subcopy":
                idx = op[1]["i"]
                n += 1
                ok = isinstance(o, list) and o and o[0] == "Interval" and o[6] == [0, 0, 0] and o[4] == [0] * 8
                if not ok:
                    cls = _input_class(sc["pool"][idx], meta[idx]["kind"])
                    viols.append({"oracle": "L2.zero_distance", "label": "subcopy:" + op[2], "actor": a["name"], "i": i, "op": op, "sim_obs": o,
                                  "detail": {"value": sc["pool"][idx], "how": op[2]}, "facts": {"how": op[2], "class": cls}, "sig_extra": [cls]})
            elif op[0] == "eqpair":
                src = a["ops"][op[1]["i"]]
                idx = op[2]["i"]
                n += 1
                if not (isinstance(o, list) and o[0] == "seq" and o[1] is True and o[2] is True and o[3] in (True, None)):
                    cls = _input_class(sc["pool"][idx], meta[idx]["kind"])
                    viols.append({"oracle": "L2.equal", "label": "eqpair:" + src[0], "actor": a["name"], "i": i, "op": op, "sim_obs": o,
                                  "detail": {"value": sc["pool"][idx], "how": src[0]}, "facts": {"how": src[0], "class": cls}, "sig_extra": [cls]})
            elif op[0] == "bin" and op[1] == "sub":
                src = a["ops"][op[2]["i"]]
                idx = op[3]["i"]
                n += 1
                ok = isinstance(o, list) and o and o[0] == "Interval" and o[6] == [0, 0, 0] and o[4] == [0] * 8
                if not ok:
                    cls = _input_class(sc["pool"][idx], meta[idx]["kind"])
                    viols.append({"oracle": "L2.zero_distance", "label": "sub:" + src[0], "actor": a["name"], "i": i, "op": op, "sim_obs": o,
                                  "detail": {"value": sc["pool"][idx], "how": src[0]}, "facts": {"how": src[0], "class": cls}, "sig_extra": [cls]})
    return viols, {"l2_evals": n}


def cold_l2(run, cold):
    """restart facet: bytes that left the simulated process are loaded in a pristine process."""
    sc = run.sc
    meta = sc["pool_meta"]
    items = []
    for a in sc["actors"]:
        if a.get("nemesis"):
            continue
        for i, op in enumerate(a["ops"]):
            if op[0] == "dumps":
                res = run.results.get(a["name"], [])
                if i < len(res) and isinstance(res[i], (bytes, bytearray)):
                    items.append((a["name"], i, op, bytes(res[i])))
    if not items:
        return [], {"restart_unpickles": 0}
    # the receiving process is configured differently from the sender: another local zone, default
    # locale and week - a value must not depend on where it is loaded
    recv = dict(sc.get("world", {}))
    recv["mock_tz"] = "America/Caracas" if recv.get("mock_tz") == "Asia/Kathmandu" else "Asia/Kathmandu"
    recv["locale"] = "ko" if recv.get("locale") != "ko" else "it"
    recv["week_start"], recv["week_end"] = 3, 2
    obs = cold.unpickle(recv, [it[3] for it in items])
    viols = []
    for (name, i, op, _), o in zip(items, obs):
        idx = op[1]["i"]
        want = run.pool_obs[idx]
        if o != want:
            cls = _input_class(sc["pool"][idx], meta[idx]["kind"])
            viols.append({"oracle": "L2.restart_roundtrip", "label": "dumps", "actor": name, "i": i, "op": op, "sim_obs": o,
                          "detail": {"original": want, "value": sc["pool"][idx], "where": "pickle.loads in a pristine forked process"},
                          "facts": {"how": "pickle", "class": cls}, "sig_extra": [cls]})
    return viols, {"restart_unpickles": len(items)}


def probes(run):
    out = {"copy_while_other_thread_in_lazy_accessor": 0}
    for (fn, _l), k in run.sched.sites.items():
        if fn in ("__deepcopy__", "__reduce__", "__reduce_ex__", "_getstate", "__getnewargs__"):
            out["copy_while_other_thread_in_lazy_accessor"] += k
    return out


def simplify(sc):
    yield from common.simplify_generic(sc)
