"""C05 - an interval's length is the exact elapsed time between its endpoints.

Only two facets of this input-quantified property meet a seam, and only those are claimed:
 * S3: Interval.__new__ takes a different route when both endpoints carry the *same tzinfo
   object* (`_start.tzinfo is _end.tzinfo`).  Whether two values in the same named zone share
   the object is decided by zoneinfo's weak cache - by history: a clear_cache(), a restart, or
   the other value having been built earlier or by another thread.  The length must not depend
   on that.
 * S1: diff() without argument measures against *now* in the instance's zone: the magnitude
   under the simulated clock (moved between and during calls).
"""
from __future__ import annotations

from sim import tzdb
from sim.engine import reg_candidates

from . import common, gen_dt

ID = "C05"
BUDGET = {"quick": 40.0, "thorough": 600.0}
RUNS = {"quick": 20000}
US = 10**6
EXACT = 2**33 * US


def _endpoint(r, zone=None, near=None):
    if zone is None:
        zone = gen_dt.pick_zone(r, allow_fixed=True, midnight_bias=0.2)
    if near is not None and r.random() < 0.6:
        inst = near + r.choice([0, 1, -1, US, 3600 * US, -3600 * US, 86400 * US, r.randrange(-40 * 86400 * US, 40 * 86400 * US),
                                r.randrange(-3 * 10**15, 3 * 10**15)])
    else:
        inst = gen_dt.pick_instant(r, zone) if r.random() < 0.85 else r.randrange(tzdb.year_start_us(2), tzdb.year_start_us(9998))
    inst = max(tzdb.year_start_us(2), min(inst, tzdb.year_start_us(9998)))
    f, off, _ = tzdb.render(zone, inst)
    ts = tzdb.wall_to_instants(zone, f)
    fold = 0 if (len(ts) == 2 and inst == ts[0]) else 1
    # built inside the op (in the client thread): zone lookups of the two endpoints can be
    # separated by a clear_cache() or another thread's construction
    spec = {"$": "dt", "f": f, "tz": zone, "fold": fold}
    if r.random() < 0.25:
        src = r.choice(["UTC", "Asia/Tokyo", 7200])
        spec = {"$": "call", "o": {"$": "dt", "f": tzdb.render(src, inst)[0], "tz": src, "fold": tzdb.render(src, inst)[2]}, "m": "in_tz",
                "a": [gen_dt.tz_spec(zone)]}
    return spec, {"inst": inst, "zone": zone, "off": off, "f": f, "fold": fold}


def gen(rp, rw, tier):
    zone_clock = rw.choice(gen_dt.DST_ZONES + ["UTC"])
    clock = gen_dt.pick_instant(rw, zone_clock)
    world = {"clock": clock}
    clocks = [clock]
    nem = []
    if rw.random() < 0.7:
        for _ in range(rw.randint(1, 4)):
            k = rw.random()
            if k < 0.55:
                nem.append(["nem", "clear_zone_cache"])
            else:
                c2 = clocks[-1] + rw.choice([1, -1, US, 3600 * US, 86400 * US, rw.randrange(-10**13, 10**13)])
                clocks.append(c2)
                nem.append(["nem", "clock", c2])
    pool, meta = [], []
    for _ in range(rp.choice([1, 2, 2])):
        s, m = _endpoint(rp, near=rp.choice(clocks) if rp.random() < 0.4 else None)
        pool.append(s)
        meta.append(m)
    actors = []
    for c in range(rw.choice([1, 2, 2, 3])):
        ops = []
        name = "T%d" % (c + 1)
        for _ in range(rw.choice([1, 2, 3, 4])):
            # the two endpoints: same named zone (identity decided by the cache), different zones, or fixed
            za = gen_dt.pick_zone(rp, allow_fixed=True, midnight_bias=0.2)
            zb = za if rp.random() < 0.6 else gen_dt.pick_zone(rp, allow_fixed=True, midnight_bias=0.2)
            if rp.random() < 0.06:
                # zones more than a day apart, instants closer than that
                za = rp.choice(["Pacific/Kiritimati", 50400, 49500])
                zb = rp.choice(["Etc/GMT+12", "Pacific/Pago_Pago", -43200, -39600])
                if rp.random() < 0.5:
                    za, zb = zb, za
            A, ma = _endpoint(rp, za)
            B, mb = _endpoint(rp, zb, near=ma["inst"])
            if rp.random() < 0.3:
                i = rp.randrange(len(pool))
                A, ma = {"$": "p", "i": i}, meta[i]
            if rp.random() < 0.08:
                # naive pairs ("x naive pairs"; a naive native operand must give the native length)
                ia = rp.randrange(tzdb.year_start_us(2), tzdb.year_start_us(9998))
                ib = ia + rp.choice([0, 1, -1, 999999, rp.randrange(-10**12, 10**12), rp.randrange(-3 * 10**15, 3 * 10**15)])
                ib = max(tzdb.year_start_us(2), min(ib, tzdb.year_start_us(9998)))
                fa, fb = tzdb.us_to_fields(ia), tzdb.us_to_fields(ib)
                pair = {"_pair": {"a": ia, "b": ib, "kind": "ba", "abs": False, "zone_a": None}}
                An = {"$": "naive", "f": fa}
                Bn = {"$": "naive", "f": fb}
                ops.append(rp.choice([["bin", "sub", Bn, An, pair], ["bin", "sub", Bn, {"$": "native", "f": fa, "tz": None}, pair],
                                      ["bin", "sub", {"$": "native", "f": fb, "tz": None}, An, pair]]))
                continue
            x = rp.random()
            if x < 0.3:
                op = ["bin", "sub", B, A]
                kind = ("ba", False)
            elif x < 0.5:
                ab = rp.random() < 0.4
                op = ["call", A, "diff", [B, not ab]] if rp.random() < 0.7 else ["call", A, "diff", [B]]
                kind = ("ab", len(op[3]) == 1 or op[3][1])
            elif x < 0.65:
                ab = rp.random() < 0.3
                op = ["pcall", "interval", [A, B, ab]]
                kind = ("ab", ab)
            elif x < 0.8:
                op = ["call", A, "diff"]
                kind = ("now", True)
                mb = None
            else:
                # native counterpart of A subtracted from B
                nat = {"$": "native", "f": ma["f"], "tz": {"$": "ntz", "kind": "zoneinfo" if isinstance(ma["zone"], str) else "timezone", "k": ma["zone"]},
                       "fold": ma["fold"]}
                op = ["bin", "sub", B, nat]
                kind = ("ba", False)
            pair = {"_pair": {"a": ma["inst"], "b": None if mb is None else mb["inst"], "kind": kind[0], "abs": kind[1], "zone_a": ma["zone"]}}
            # the pair's reference data travels with the op (survives renumbering by the minimiser);
            # trailing elements are ignored by the op interpreter
            if op[0] == "call":
                op = op + [[]] * (4 - len(op)) if len(op) < 4 else op
                op = op + [{}] * (5 - len(op)) + [pair]
            elif op[0] == "pcall":
                op = op + [[]] * (3 - len(op)) if len(op) < 3 else op
                op = op + [{}] * (4 - len(op)) + [pair]
            else:
                op = op + [pair]
            ops.append(op)
            j = len(ops) - 1
            if rp.random() < 0.6:
                ops.append(rp.choice([["call", {"$": "r", "i": j}, m_] for m_ in ("in_seconds", "in_minutes", "in_hours", "total_seconds")]
                                     + [["un", "abs", {"$": "r", "i": j}], ["un", "neg", {"$": "r", "i": j}]]))
        actors.append({"name": name, "ops": ops})
    common.add_nemesis_and_barriers(rw, actors, nem, restart_p=0.2)
    return {"world": world, "pool": pool, "actors": actors, "pool_meta": meta, "step_cap": 30000,
            "horizon": sum(len(a["ops"]) for a in actors) * 40}


def _length_from_obs(o):
    """(signed length in us from the native timedelta fields, absolute flag) of an Interval observation"""
    nat = o[6]
    return (nat[0] * 86400 + nat[1]) * US + nat[2]


def l2_check(run):
    sc = run.sc
    viols = []
    n = 0
    for a in sc["actors"]:
        if a.get("nemesis"):
            continue
        for i, op in enumerate(a["ops"]):
            rec = run.recs.get((a["name"], i))
            if rec is None or op[0] in ("nem", "barrier"):
                continue
            o = rec["obs"]
            p = op[-1]["_pair"] if isinstance(op[-1], dict) and "_pair" in op[-1] else None
            if p is not None:
                if not (isinstance(o, list) and o and o[0] == "Interval"):
                    if isinstance(o, list) and o and o[0] == "EXC" and o[1] == "OverflowError":
                        continue
                    n += 1
                    viols.append({"oracle": "L2.length", "label": common.label(op), "actor": a["name"], "i": i, "op": op, "sim_obs": o,
                                  "detail": {"want": "an Interval"}, "facts": {"raises": o[1] if isinstance(o, list) and o and o[0] == "EXC" else None}})
                    continue
                n += 1
                got = _length_from_obs(o)
                if p["kind"] == "now":
                    cands = reg_candidates(run, rec)["clock"]
                    wants = [abs(c - p["a"]) for c in cands]
                else:
                    d = p["b"] - p["a"]
                    wants = [abs(d) if p["abs"] else d]
                tol = 0 if all(abs(w) < EXACT for w in wants) else 64
                if not any(abs(got - w) <= tol for w in wants):
                    viols.append({"oracle": "L2.length", "label": common.label(op), "actor": a["name"], "i": i, "op": op, "sim_obs": o[6],
                                  "detail": {"want_us": wants[:3], "got_us": got, "pair": p}, "facts": {"kind": p["kind"], "same_zone": None}})
            elif op[0] in ("call", "un") and isinstance(op[1 if op[0] == "call" else 2], dict) and (op[1] if op[0] == "call" else op[2]).get("$") == "r":
                ref = (op[1] if op[0] == "call" else op[2])["i"]
                src = run.recs.get((a["name"], ref))
                if not src or not (isinstance(src["obs"], list) and src["obs"] and src["obs"][0] == "Interval"):
                    continue
                length = _length_from_obs(src["obs"])
                n += 1
                ok = True
                if op[0] == "call" and op[2] in ("in_seconds", "in_minutes", "in_hours"):
                    div = {"in_seconds": US, "in_minutes": 60 * US, "in_hours": 3600 * US}[op[2]]
                    want = abs(length) // div * (1 if length >= 0 else -1)
                    ok = o == want or (abs(length) >= EXACT and isinstance(o, int) and abs(o - want) <= 1)
                elif op[0] == "call" and op[2] == "total_seconds":
                    ok = isinstance(o, list) and o[0] == "float" and abs(float(o[1]) * US - length) <= max(1, abs(length) * 6e-16)
                elif op[0] == "un" and op[1] in ("neg", "abs") and isinstance(o, list) and o and o[0] == "Interval":
                    want = -length if op[1] == "neg" else abs(length)
                    if src["obs"][3] and op[1] == "neg":
                        continue      # negating an absolute interval: the statement speaks of swapping endpoints of a signed one
                    ok = _length_from_obs(o) == want
                if not ok:
                    viols.append({"oracle": "L2.derived", "label": common.label(op), "actor": a["name"], "i": i, "op": op, "sim_obs": o,
                                  "detail": {"interval_length_us": length}, "facts": {}})
    return viols, {"l2_evals": n}


def probes(run):
    out = {"zone_cache_cleared_during_interval_construction": 0, "clock_moved_during_default_diff": 0}
    cw = [w for w in run.regw if w[2] == "clock" and w[0] > 0]
    clears = []
    for a in run.sc["actors"]:
        if a.get("nemesis"):
            for i, op in enumerate(a["ops"]):
                if op[0] == "nem" and op[1] == "clear_zone_cache":
                    rec = run.recs.get((a["name"], i))
                    if rec:
                        clears.append(rec)
    for a in run.sc["actors"]:
        if a.get("nemesis"):
            continue
        for i, op in enumerate(a["ops"]):
            rec = run.recs.get((a["name"], i))
            if not rec or not (isinstance(op[-1], dict) and "_pair" in op[-1]):
                continue
            if any(c["inv"] < rec["ret"] and c["ret"] > rec["inv"] for c in clears):
                out["zone_cache_cleared_during_interval_construction"] += 1
            if op[0] == "call" and op[2] == "diff" and not op[3] and any(w[0] < rec["ret"] and w[1] > rec["inv"] for w in cw):
                out["clock_moved_during_default_diff"] += 1
    return out


def simplify(sc):
    yield from common.simplify_generic(sc)
