"""Shared generators: zones, boundary-biased instants, DateTime/Date value specs."""
from __future__ import annotations

import calendar as _cal
import datetime as _dt
import functools

from sim import tzdb

US = 10**6
DAY = 86400 * US

# zones whose transitions skip or repeat local midnight (or a whole day)
MIDNIGHT_ZONES = ["America/Sao_Paulo", "America/Havana", "Asia/Beirut", "America/Santiago", "America/Asuncion",
                  "Asia/Amman", "Atlantic/Azores", "Africa/Cairo", "Asia/Tehran", "America/Scoresbysund",
                  "Pacific/Apia", "Asia/Gaza", "America/Godthab"]
DST_ZONES = ["Europe/Paris", "America/New_York", "Europe/London", "Australia/Lord_Howe", "Australia/Sydney",
             "America/St_Johns", "Pacific/Auckland", "Europe/Moscow", "America/Los_Angeles", "Asia/Jerusalem",
             "Europe/Lisbon", "Pacific/Chatham", "Africa/Casablanca", "America/Argentina/Buenos_Aires"]
PLAIN_ZONES = ["UTC", "Asia/Tokyo", "Asia/Kolkata", "Asia/Kathmandu", "Africa/Nairobi", "Etc/GMT+12", "Pacific/Kiritimati"]
FIXED = [0, 3600, -3600, 19800, -16200, 20700, 45900, -43200, 50400, 86340, -86340, 3661, -1800]
ALL_NAMED = MIDNIGHT_ZONES + DST_ZONES + PLAIN_ZONES
_CURATED = (MIDNIGHT_ZONES, DST_ZONES, PLAIN_ZONES, ALL_NAMED)

# ---- swarm: "wide" runs.  The curated lists above are where the interesting transitions are known
# to be; a fixed list is also a blind spot (a change keyed on a zone, a rule shape or an era nobody
# listed).  In a fraction of the runs the three lists are re-drawn from *every* zone name the tzdata
# package ships (~600) and transitions are looked for back to 1900 (LMT -> standard time changes with
# second-granularity offsets, war time, the day skips of Kwajalein/Fakaofo/Kanton ...).  The decision
# and the sample come from their own PRNG sub-stream ("zones"), so the other runs of a seed are
# bit-for-bit what they were before this mode existed.
WIDE = False
WIDE_P = 0.25
TRANS_RANGE = (1970, 2040)


@functools.lru_cache(maxsize=None)
def all_zones():
    import zoneinfo

    skip = {"Factory", "localtime", "posixrules"}
    return tuple(sorted(z for z in zoneinfo.available_timezones() if z not in skip and not z.startswith(("posix/", "right/"))))


def begin_run(rz):
    """rz: the run's own "zones" PRNG sub-stream."""
    global WIDE, MIDNIGHT_ZONES, DST_ZONES, PLAIN_ZONES, ALL_NAMED, TRANS_RANGE
    import os

    p = float(os.environ.get("VERIF_WIDE", WIDE_P))
    WIDE = rz.random() < p
    if not WIDE:
        MIDNIGHT_ZONES, DST_ZONES, PLAIN_ZONES, ALL_NAMED = _CURATED
        TRANS_RANGE = (1970, 2040)
        return
    az = all_zones()
    pick = rz.sample(az, 24)
    # zones with many transitions first in the "DST" bucket (most draws go there)
    MIDNIGHT_ZONES, DST_ZONES, PLAIN_ZONES = pick[:8], pick[8:20], pick[20:] + ["UTC"]
    ALL_NAMED = MIDNIGHT_ZONES + DST_ZONES + PLAIN_ZONES
    TRANS_RANGE = (1900, 2040)


def end_run():
    global WIDE, MIDNIGHT_ZONES, DST_ZONES, PLAIN_ZONES, ALL_NAMED, TRANS_RANGE
    WIDE = False
    MIDNIGHT_ZONES, DST_ZONES, PLAIN_ZONES, ALL_NAMED = _CURATED
    TRANS_RANGE = (1970, 2040)


def pick_zone(r, allow_fixed=True, allow_naive=False, midnight_bias=0.3):
    x = r.random()
    if allow_naive and x < 0.06:
        return None
    if allow_fixed and x < 0.2:
        return r.choice(FIXED)
    if x < 0.2 + midnight_bias:
        return r.choice(MIDNIGHT_ZONES)
    if x < 0.85:
        return r.choice(DST_ZONES)
    return r.choice(PLAIN_ZONES)


def year_start_us(y):
    return tzdb.to_us(_dt.datetime(y, 1, 1, tzinfo=_dt.timezone.utc))


def pick_instant(r, zone, lo_year=1971, hi_year=2039):
    """instant (us) biased to the zone's transitions and to calendar boundaries."""
    x = r.random()
    trans = tzdb.transitions(zone, *TRANS_RANGE) if isinstance(zone, str) else ()
    if trans and x < 0.45:
        t, o0, o1 = r.choice(trans)
        gap = abs(o1 - o0)
        base = t * US
        d = r.choice([-1, 0, 1, -US, US, -gap * US, gap * US, -gap * US - 1, gap * US - 1,
                      -r.randrange(0, 2 * DAY), r.randrange(0, 2 * DAY), r.randrange(-12 * 3600 * US, 12 * 3600 * US),
                      -1800 * US, 1800 * US])
        return base + d
    if x < 0.65:
        # calendar boundaries in the zone's local time: month/year/decade/century ends
        y = r.choice([r.randint(lo_year, hi_year), 1999, 2000, 2001, 2009, 2010, 2019, 2020, 2029, 2030])
        m = r.choice([1, 2, 3, 12, r.randint(1, 12)])
        last = _cal.monthrange(y, m)[1]
        d = r.choice([1, last, last, min(29, last), r.randint(1, last)])
        hh, mm, ss, us = r.choice([(0, 0, 0, 0), (23, 59, 59, 999999), (0, 0, 0, 1), (23, 59, 59, 0), (12, 0, 0, 0),
                                   (r.randint(0, 23), r.randint(0, 59), r.randint(0, 59), r.randint(0, 999999))])
        f = [y, m, d, hh, mm, ss, us]
        if zone is None:
            return tzdb.naive_us(f)
        ts = tzdb.wall_to_instants(zone, f)
        if ts:
            return r.choice(ts)
        return tzdb.first_instant_at_or_after_wall(zone, f)
    lo, hi = year_start_us(lo_year), year_start_us(hi_year + 1)
    return r.randrange(lo, hi)


def tz_spec(zone):
    return {"$": "tz", "k": zone}


_UNSET = object()


def dt_value(r, zone=_UNSET, how=None, instant=None):
    """a DateTime value spec denoting ``instant`` in ``zone``, obtained in one of several ways.
    returns (spec, zone, instant, how)"""
    if zone is _UNSET:
        zone = pick_zone(r)
    if instant is None:
        instant = pick_instant(r, zone)
    if zone is None:
        f = tzdb.us_to_fields(instant)
        return {"$": "naive", "f": f}, None, instant, "naive"
    f, off, fold = tzdb.render(zone, instant)
    how = how or r.choice(["constructed", "constructed", "converted", "converted", "parsed", "timestamp", "constructed_fold0"])
    if how == "constructed":
        # pendulum's default fold=1 is right unless this is the earlier occurrence of a repeated wall time
        nfold = 1
        ts = tzdb.wall_to_instants(zone, f)
        if len(ts) == 2 and instant == ts[0]:
            nfold = 0
        spec = {"$": "dt", "f": f, "tz": zone, "fold": nfold}
    elif how == "constructed_fold0":
        ts = tzdb.wall_to_instants(zone, f)
        if len(ts) == 2 and instant == ts[1]:
            spec = {"$": "dt", "f": f, "tz": zone, "fold": 1}
        else:
            spec = {"$": "dt", "f": f, "tz": zone, "fold": 0}
    elif how == "converted":
        uf = tzdb.us_to_fields(instant)
        src = r.choice(["UTC", "UTC", "Asia/Tokyo", 7200])
        sf = tzdb.render(src, instant)[0]
        spec = {"$": "call", "o": {"$": "dt", "f": sf, "tz": src}, "m": "in_tz", "a": [tz_spec(zone)]}
        del uf
    elif how == "parsed":
        uf = tzdb.us_to_fields(instant)
        s = "%04d-%02d-%02dT%02d:%02d:%02d.%06dZ" % tuple(uf)
        spec = {"$": "call", "o": {"$": "parse", "s": s}, "m": "in_tz", "a": [tz_spec(zone)]}
    elif how == "timestamp":
        # from_timestamp takes float seconds: keep whole seconds to stay exact
        instant -= instant % US
        spec = {"$": "pcall", "n": "from_timestamp", "a": [instant // US], "kw": {"tz": tz_spec(zone)}}
    else:
        raise ValueError(how)
    return spec, zone, instant, how


def date_value(r):
    y = r.choice([r.randint(1, 9999), r.randint(1950, 2050), 2000, 1900, 2024, 2023])
    m = r.randint(1, 12)
    last = _cal.monthrange(y, m)[1]
    d = r.choice([1, last, r.randint(1, last)])
    return {"$": "date", "f": [y, m, d]}
