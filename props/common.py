from __future__ import annotations

import copy

from sim.ops import op_label as label  # noqa: F401


def add_nemesis_and_barriers(rw, actors, nem_ops, restart_p=0.15, plain_p=0.05):
    """attach the nemesis actor and (sometimes) one barrier at which all actors park;
    the last arriver performs a restart (drop every module cache) at that quiescent point."""
    if nem_ops:
        actors.append({"name": "N", "nemesis": True, "ops": list(nem_ops)})
    x = rw.random()
    kind = None
    if x < restart_p:
        kind = "restart"
    elif x < restart_p + plain_p:
        kind = None if False else ""
    if kind is not None:
        for a in actors:
            pos = rw.randint(0, len(a["ops"]))
            a["ops"].insert(pos, ["barrier", kind] if kind else ["barrier"])
            _shift_refs(a["ops"], pos)
    return actors


def _shift_refs(ops, pos):
    """an op was inserted at ``pos``: result refs >= pos move by one."""
    def fix(x):
        if isinstance(x, dict):
            if x.get("$") == "r" and x["i"] >= pos:
                return {"$": "r", "i": x["i"] + 1}
            return {k: fix(v) for k, v in x.items()}
        if isinstance(x, list):
            return [fix(v) for v in x]
        return x

    for j in range(pos + 1, len(ops)):
        ops[j] = fix(ops[j])


def simplify_generic(sc):
    """one-leaf simplifications of pool specs (drop a keyword, halve / zero a number, UTC for a zone)."""
    for i, spec in enumerate(sc.get("pool", [])):
        if not isinstance(spec, dict) or "pool_meta" in sc:
            # the property's model reads pool_meta, which mirrors the pool specs
            continue
        kw = spec.get("kw")
        if isinstance(kw, dict):
            for k in list(kw):
                t = copy.deepcopy(sc)
                del t["pool"][i]["kw"][k]
                yield t
            for k, v in kw.items():
                if isinstance(v, int) and abs(v) > 1:
                    for nv in (v // 2, (1 if v > 0 else -1)):
                        if nv != v:
                            t = copy.deepcopy(sc)
                            t["pool"][i]["kw"][k] = nv
                            yield t
        if spec.get("tz") not in (None, "UTC") and "tz" in spec:
            t = copy.deepcopy(sc)
            t["pool"][i]["tz"] = "UTC"
            yield t
    w = sc.get("world", {})
    for k in ("locale",):
        if w.get(k) not in (None, "en"):
            t = copy.deepcopy(sc)
            t["world"][k] = "en"
            yield t
