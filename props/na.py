"""Canary for the not-applicable verdicts (not a registered check).

Representative ops of the ten properties listed `not_applicable` (C03, C04, C07, C10, C11, C13,
C15, C17, C19, C20) run under the same scheduler, nemesis and oracles (L1 in-process and
cold-process; no L2).  It does not decide those properties - their content is their input
quantifier - it only confirms that no schedule, clock, configuration or history dependence exists
in those code paths to be decided.  If an edit introduces shared state there, this canary turns
red and the verdict in DESIGN.md must be revisited.

usage: selftest/na_canary.sh [quick|thorough]      (redirects the evidence file out of /verif/evidence)
"""
from __future__ import annotations

from . import common, gen_dt
from .c09 import dur_kwargs

ID = "NA"
BUDGET = {"quick": 40.0, "thorough": 300.0}
RUNS = {"quick": 12000}
CROSS_BACKEND = False     # backend agreement on every string is C07/C13/C17's input quantifier (e.g. parse("P") is accepted
                          # by the pure-Python parser only) - not a schedule/clock/history dependence, so not the canary's business

ISO = ["2021-03-04", "2021-03-04T05:06:07", "2021-03-04T05:06:07.123456+05:30", "20210304T050607Z", "2021-063", "2021-W09-4",
       "2021-W09", "05:06:07.5", "2021-03-04 05:06:07", "P1Y2M3DT4H5M6S", "P2W", "PT1.5S", "P1Y2M3,5D",
       "2021-03-04T05:06:07Z/2021-04-04T05:06:07Z", "2021-03-04T05:06:07Z/P1M", "P1M/2021-03-04T05:06:07Z",
       "2021-02-30", "2021-13-01", "not a date", "2021-03-04T25:00", "", "2:", "P", "1e5"]


def gen(rp, rw, tier):
    pool, meta = [], []
    for _ in range(rp.choice([2, 3])):
        k = rp.random()
        if k < 0.45:
            s, _, _, _ = gen_dt.dt_value(rp, zone=gen_dt.pick_zone(rp, allow_naive=True))
            pool.append(s)
            meta.append("dt")
        elif k < 0.6:
            pool.append(gen_dt.date_value(rp))
            meta.append("date")
        elif k < 0.75:
            pool.append({"$": "time", "f": [rp.randrange(24), rp.randrange(60), rp.randrange(60), rp.randrange(10**6)]})
            meta.append("time")
        else:
            pool.append({"$": "dur", "kw": dur_kwargs(rp)})
            meta.append("dur")
    actors = []
    for c in range(rw.choice([2, 3, 3])):
        ops = []
        for _ in range(rw.choice([2, 3, 4, 5])):
            i = rp.randrange(len(pool))
            T = {"$": "p", "i": i}
            kind = meta[i]
            if kind == "dt":
                ops.append(rp.choice([
                    ["call", T, rp.choice(["add", "subtract"]), [], {rp.choice(["hours", "minutes", "seconds", "microseconds"]): rp.randint(-10**5, 10**5)}],   # C03
                    ["call", T, rp.choice(["add", "subtract"]), [], {rp.choice(["years", "months", "weeks", "days"]): rp.randint(-40, 40)}],                 # C04
                    ["bin", "add", T, {"$": "td", "s": rp.randint(-10**6, 10**6), "us": rp.randint(0, 999999)}],
                    ["bin", "sub", T, {"$": "dur", "kw": dur_kwargs(rp)}],
                    ["call", T, rp.choice(["isoformat", "timetuple", "utctimetuple", "toordinal", "weekday", "isoweekday", "isocalendar", "ctime",
                                           "date", "time", "timestamp", "utcoffset", "tzname", "dst"])],                                                   # C11
                    ["get", T, rp.choice(["day_of_week", "day_of_year", "week_of_year", "week_of_month", "days_in_month", "quarter"])],                    # C15
                    ["call", T, rp.choice(["is_leap_year", "is_long_year"])],
                    ["call", T, "strftime", ["%Y-%m-%d %H:%M:%S %z %j %U %a"]],
                ]))
            elif kind == "date":
                ops.append(rp.choice([
                    ["call", T, rp.choice(["add", "subtract"]), [], {rp.choice(["years", "months", "weeks", "days"]): rp.randint(-40, 40)}],
                    ["get", T, rp.choice(["day_of_week", "day_of_year", "week_of_year", "week_of_month", "days_in_month", "quarter"])],
                    ["call", T, rp.choice(["isoformat", "toordinal", "isocalendar", "ctime", "is_leap_year"])],
                ]))
            elif kind == "time":
                ops.append(rp.choice([
                    ["call", T, rp.choice(["add", "subtract"]), [], {rp.choice(["hours", "minutes", "seconds", "microseconds"]): rp.randint(-10**5, 10**5)}],   # C20
                    ["bin", "add", T, {"$": "td", "s": rp.randint(-80000, 80000), "us": rp.randint(0, 999999)}],
                    ["call", T, "diff", [{"$": "time", "f": [rp.randrange(24), rp.randrange(60), rp.randrange(60), rp.randrange(10**6)]}, rp.random() < 0.5]],
                    ["call", T, "isoformat"],
                ]))
            else:
                other = rp.choice([{"$": "dur", "kw": dur_kwargs(rp)}, {"$": "td", "d": rp.randint(-5, 5), "s": rp.randint(1, 80000), "us": rp.randint(0, 999)},
                                   rp.choice([2, 3, -4, 7]), rp.choice([0.5, 1.5, -2.25])])
                opn = rp.choice(["add", "sub", "mul", "truediv", "floordiv", "mod", "divmod", "eq", "lt"])
                if not isinstance(other, dict) and opn in ("add", "sub", "mod", "divmod", "eq", "lt"):
                    opn = "mul"
                if isinstance(other, dict) and opn == "mul":
                    opn = "add"
                if isinstance(other, float) and opn == "floordiv":
                    opn = "truediv"
                ops.append(["bin", opn, T, other])                                                                                                         # C10
            x = rp.random()
            if x < 0.25:
                ops.append(["pcall", "parse", [rp.choice(ISO)], rp.choice([{}, {"exact": True}, {"strict": False}, {"tz": {"$": "tz", "k": "Europe/Paris"}}])])   # C07 C13 C17
            elif x < 0.35:
                a, _, ia, _ = gen_dt.dt_value(rp, zone="UTC", how="constructed")
                ops.append(["range5", a, rp.choice(["days", "hours", "months", "weeks"]), rp.randint(1, 5), rp.randint(0, 40)])                              # C19
        actors.append({"name": "T%d" % (c + 1), "ops": ops})
    nem = []
    if rw.random() < 0.6:
        for _ in range(rw.randint(1, 3)):
            nem.append(rw.choice([["nem", "clock", rw.randrange(0, 2 * 10**15)], ["nem", "locale", rw.choice(["fr", "de", "en"])],
                                  ["nem", "week_start", rw.randrange(7)], ["nem", "cal_fwd", rw.randrange(7)], ["nem", "clear_zone_cache"],
                                  ["nem", "mock_tz", rw.choice([None, "Asia/Tokyo"])]]))
    common.add_nemesis_and_barriers(rw, actors, nem, restart_p=0.2)
    return {"world": {}, "pool": pool, "actors": actors, "pool_meta": meta, "step_cap": 30000,
            "horizon": sum(len(a["ops"]) for a in actors) * 40}


def extend_candidates(run, rec, op, cands):
    # none of these ops may depend on any register: the reference is the default environment
    for reg in ("locale", "week_start", "week_end", "cal_fwd", "mock_tz"):
        base = [w[3] for w in run.regw if w[2] == reg and w[0] == 0]
        cands[reg] = base[:1] or cands[reg][:1]
    if not (op[0] == "pcall" and op[1] == "parse"):
        cands["clock"] = cands["clock"][:1]      # only time-only strings may read the clock (C07: the date is not constrained)
    return False


def xb_facts(sc, diff):
    return {}


def simplify(sc):
    yield from common.simplify_generic(sc)
