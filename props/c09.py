"""C09 - Duration normalisation is consistent with timedelta and with itself.

Facet decided by simulation: the components a Duration reports (hours, minutes,
remaining_seconds, invert are *lazily cached in the instance*) stay canonical and
consistent no matter which thread asks first or when, under concurrent set_locale
flips for in_words(), and across cache restarts.
"""
from __future__ import annotations

import datetime as _dt

from . import common

ID = "C09"
BUDGET = {"quick": 40.0, "thorough": 600.0}
RUNS = {"quick": 40000}

_BOUNDARY = {
    "years": [0, 1, -1, 2, -2],
    "months": [0, 1, -1, 11, 12, 13, -12, 14],
    "weeks": [0, 1, -1, 2, 52, -52],
    "days": [0, 1, -1, 6, 7, 8, -7, 29, 30, 31, 365, -366],
    "hours": [0, 1, -1, 5, 23, 24, 25, -24, 48],
    "minutes": [0, 1, -1, 7, 59, 60, 61, -60, 1439, 1440, 1441],
    "seconds": [0, 1, -1, 9, 59, 60, 61, -60, 3599, 3600, 3601, 86399, 86400, 86401, -86400],
    "milliseconds": [0, 1, -1, 999, 1000, 1001, -1000],
    "microseconds": [0, 1, -1, 999999, 1000000, 1000001, -1000000, 500000],
}
_RANGE = {
    "years": 2, "months": 14, "weeks": 60, "days": 400, "hours": 100, "minutes": 3000,
    "seconds": 100000, "milliseconds": 5000, "microseconds": 3000000,
}
KEYS = list(_RANGE)


def dur_kwargs(r):
    kind = r.random()
    if kind < 0.08:
        return r.choice([{}, {"seconds": 0}, {"hours": 1, "minutes": -60}, {"days": 1, "hours": -24},
                         {"seconds": 1, "microseconds": -1000000}, {"weeks": 1, "days": -7},
                         {"hours": 5, "minutes": 7, "seconds": 9}, {"minutes": 1, "seconds": -61}])
    n = r.choice([1, 2, 2, 3, 3, 4, 6])
    keys = r.sample(KEYS, n)
    kw = {}
    for k in keys:
        if r.random() < 0.5:
            kw[k] = r.choice(_BOUNDARY[k])
        else:
            kw[k] = r.randint(-_RANGE[k], _RANGE[k])
    if r.random() < 0.25:
        # common sign
        s = r.choice([1, -1])
        kw = {k: abs(v) * s for k, v in kw.items()}
    return kw


def model(kw):
    """integer reference model of the statement."""
    years, months = kw.get("years", 0), kw.get("months", 0)
    rest_us = (
        ((kw.get("weeks", 0) * 7 + kw.get("days", 0)) * 86400
         + kw.get("hours", 0) * 3600 + kw.get("minutes", 0) * 60 + kw.get("seconds", 0)) * 10**6
        + kw.get("milliseconds", 0) * 1000 + kw.get("microseconds", 0)
    )
    m = -1 if rest_us < 0 else 1
    mag = abs(rest_us)
    us = mag % 10**6
    secs = mag // 10**6
    days = secs // 86400
    s = secs % 86400
    comps = [years, months, days // 7 * m, days % 7 * m, s // 3600 * m, s // 60 % 60 * m, s % 60 * m, us * m]
    native = _dt.timedelta(
        days=kw.get("days", 0) + years * 365 + months * 30, seconds=kw.get("seconds", 0),
        microseconds=kw.get("microseconds", 0), milliseconds=kw.get("milliseconds", 0),
        minutes=kw.get("minutes", 0), hours=kw.get("hours", 0), weeks=kw.get("weeks", 0))
    total_us = (native.days * 86400 + native.seconds) * 10**6 + native.microseconds
    return {"comps": comps, "native": [native.days, native.seconds, native.microseconds],
            "invert": total_us < 0, "total_us": total_us, "rest_us": rest_us}


_ATTR_IDX = {"years": 0, "months": 1, "weeks": 2, "remaining_days": 3, "hours": 4, "minutes": 5,
             "remaining_seconds": 6, "microseconds": 7}
_LAZY = ["hours", "minutes", "remaining_seconds", "invert"]
_ALL_ATTRS = list(_ATTR_IDX) + ["invert"]
LOCS = ["en", "fr", "de", "ru", "pl", "ja", "ko", "cs", "lt", "he"]


def _client_ops(r, npool, nops, locales):
    ops = []
    for _ in range(nops):
        T = {"$": "p", "i": r.randrange(npool)}
        x = r.random()
        if x < 0.22:
            ops.append(["get", T, r.choice(_LAZY if r.random() < 0.7 else _ALL_ATTRS)])
        elif x < 0.36:
            k = r.randint(2, 4)
            ops.append(["multi", T, r.sample(_ALL_ATTRS, k) if r.random() < 0.5 else r.sample(_LAZY, min(k, 4))])
        elif x < 0.46:
            ops.append(["obs", T])
        elif x < 0.54:
            ops.append(["un", r.choice(["repr", "str"]), T])
        elif x < 0.60:
            ops.append(["call", T, "in_words", [], {"locale": r.choice(locales + [None, None])}])
        elif x < 0.66:
            ops.append(["un", r.choice(["neg", "abs"]), T])
        elif x < 0.78:
            ops.append(r.choice([["copy", T], ["deepcopy", T], ["deepcopy", T], ["pickle", T, r.randint(0, 5)]]))
        elif x < 0.84:
            ops.append(["call", T, r.choice(["total_seconds", "total_minutes", "total_hours", "total_days", "total_weeks",
                                             "in_weeks", "in_days", "in_hours", "in_minutes", "in_seconds", "as_timedelta"])])
        elif x < 0.90:
            ops.append(["rebuild", T])
        elif x < 0.95:
            T2 = {"$": "p", "i": r.randrange(npool)}
            ops.append(r.choice([["bin", "add", T, T2], ["bin", "sub", T, T2], ["bin", "mul", T, r.randint(-3, 3)],
                                 ["bin", "floordiv", T, r.choice([1, 2, 3, -2, 7])], ["bin", "truediv", T, r.choice([2, 3, -4, 0.5])]]))
        else:
            ops.append(["bin", "add", {"$": "dt", "f": [r.randint(1990, 2030), r.randint(1, 12), r.randint(1, 28), r.randint(0, 23), r.randint(0, 59), r.randint(0, 59), 0],
                                       "tz": r.choice(["UTC", "Europe/Paris", "America/New_York", 3600, None])}, T])
        # sometimes observe / reuse the private result
        if ops[-1][0] in ("un", "copy", "deepcopy", "pickle", "rebuild") and r.random() < 0.4:
            j = len(ops) - 1
            ops.append(r.choice([["obs", {"$": "r", "i": j}], ["multi", {"$": "r", "i": j}, list(_LAZY)],
                                 ["un", "repr", {"$": "r", "i": j}]]))
    return ops


def gen(rp, rw, tier):
    npool = rp.choice([1, 1, 1, 2, 2, 3])
    pool = [{"$": "dur", "kw": dur_kwargs(rp)} for _ in range(npool)]
    if rp.random() < 0.06:
        pool[0] = {"$": "absdur", "kw": {k: v for k, v in dur_kwargs(rp).items()}}
    nclients = rw.choice([2, 2, 2, 3, 3, 4])
    locales = rw.sample(LOCS, 3)
    actors = []
    for c in range(nclients):
        actors.append({"name": "T%d" % (c + 1), "ops": _client_ops(rp, npool, rw.choice([1, 1, 2, 3, 4, 6]), locales)})
    world = {"locale": rw.choice(locales)}
    nem = []
    if rw.random() < 0.35:
        for _ in range(rw.randint(1, 3)):
            nem.append(["nem", "locale", rw.choice(locales + ["xx"]) if rw.random() < 0.1 else rw.choice(locales)])
    common.add_nemesis_and_barriers(rw, actors, nem, restart_p=0.15)
    steps = sum(len(a["ops"]) for a in actors) * 25
    return {"world": world, "pool": pool, "actors": actors, "horizon": steps, "step_cap": 20000}


# ----------------------------------------------------------------------------- L2
def _chk(viols, run, rec, op, rule, detail, facts=None):
    viols.append({"oracle": "L2." + rule, "label": common.label(op), "actor": rec["actor"], "i": rec["i"],
                  "op": op, "sim_obs": rec["obs"], "detail": detail, "facts": facts or {}})


def l2_check(run):
    sc = run.sc
    viols = []
    n = 0
    models = {}
    for i, spec in enumerate(sc["pool"]):
        if spec.get("$") == "dur":
            models[i] = model(spec["kw"])
    for a in sc["actors"]:
        for i, op in enumerate(a["ops"]):
            rec = run.recs.get((a["name"], i))
            if rec is None or op[0] in ("nem", "barrier"):
                continue
            # model-free: whatever Duration an op hands back (a copy, a negation, a sum ...) must be
            # consistent with itself - its components sum exactly to its timedelta value
            o = rec["obs"]
            if isinstance(o, list) and o and o[0] == "Duration" and len(o) >= 4:
                n += 1
                c, nat = o[1], o[3]
                comp_us = ((c[0] * 365 + c[1] * 30 + c[2] * 7 + c[3]) * 86400 + c[4] * 3600 + c[5] * 60 + c[6]) * 10**6 + c[7]
                nat_us = (nat[0] * 86400 + nat[1]) * 10**6 + nat[2]
                if comp_us != nat_us:
                    _chk(viols, run, rec, op, "self_consistency", {"components": c, "timedelta": nat, "components_us": comp_us, "timedelta_us": nat_us})
            tgt = op[1] if len(op) > 1 and isinstance(op[1], dict) and op[1].get("$") == "p" else None
            if tgt is None or tgt["i"] not in models:
                continue
            m = models[tgt["i"]]
            o = rec["obs"]
            f = op[0]
            if f == "get" and op[2] in _ATTR_IDX:
                n += 1
                if o != m["comps"][_ATTR_IDX[op[2]]]:
                    _chk(viols, run, rec, op, "component", {"attr": op[2], "want": m["comps"][_ATTR_IDX[op[2]]], "spec": sc["pool"][tgt["i"]]})
            elif f == "get" and op[2] == "invert":
                n += 1
                if o != m["invert"]:
                    _chk(viols, run, rec, op, "invert", {"want": m["invert"], "spec": sc["pool"][tgt["i"]]})
            elif f == "multi":
                n += 1
                want = ["seq"] + [m["invert"] if at == "invert" else m["comps"][_ATTR_IDX[at]] for at in op[2]]
                if o != want:
                    _chk(viols, run, rec, op, "component", {"attrs": op[2], "want": want, "spec": sc["pool"][tgt["i"]]})
            elif f in ("obs", "rebuild"):
                n += 1
                if not (isinstance(o, list) and o and o[0] == "Duration"):
                    _chk(viols, run, rec, op, "shape", {"want": "Duration observation"})
                    continue
                comps, inv, native, tot = o[1], o[2], o[3], o[4]
                if f == "obs":
                    if comps != m["comps"] or inv != m["invert"] or native != m["native"]:
                        _chk(viols, run, rec, op, "component", {"want": [m["comps"], m["invert"], m["native"]], "spec": sc["pool"][tgt["i"]]})
                    elif float(tot[1]) != m["total_us"] / 10**6:
                        _chk(viols, run, rec, op, "total", {"want": m["total_us"] / 10**6})
                else:
                    # rebuilding from its own components reproduces it
                    if comps != m["comps"] or native != m["native"]:
                        _chk(viols, run, rec, op, "rebuild", {"want": [m["comps"], m["native"]], "spec": sc["pool"][tgt["i"]]})
                # canonical ranges / common sign, independent of the model
                sign = -1 if m["rest_us"] < 0 else 1
                lim = [None, None, None, 7, 24, 60, 60, 10**6]
                for idx in range(2, 8):
                    v = comps[idx]
                    if v != 0 and (v > 0) != (sign > 0):
                        _chk(viols, run, rec, op, "sign", {"index": idx, "value": v})
                    if lim[idx] and abs(v) >= lim[idx]:
                        _chk(viols, run, rec, op, "range", {"index": idx, "value": v})
            elif f == "call" and op[2] in ("total_seconds", "total_minutes", "total_hours", "total_days", "total_weeks"):
                n += 1
                div = {"total_seconds": 1, "total_minutes": 60, "total_hours": 3600, "total_days": 86400, "total_weeks": 86400}[op[2]]
                want = (m["total_us"] / 10**6) / div
                if op[2] == "total_weeks":
                    want = want / 7
                if not (isinstance(o, list) and o[0] == "float" and float(o[1]) == want):
                    _chk(viols, run, rec, op, "total", {"want": want})
            elif f == "call" and op[2] in ("in_weeks", "in_days", "in_hours", "in_minutes", "in_seconds"):
                n += 1
                div = {"in_weeks": 86400, "in_days": 86400, "in_hours": 3600, "in_minutes": 60, "in_seconds": 1}[op[2]]
                t = (m["total_us"] / 10**6) / div
                if op[2] == "in_weeks":
                    t = t / 7
                if o != int(t):
                    _chk(viols, run, rec, op, "total", {"want": int(t)})
            elif f == "call" and op[2] == "as_timedelta":
                n += 1
                # native value of the same arguments (float-exact range by construction)
                nat = _dt.timedelta(microseconds=m["total_us"])
                if o != ["timedelta", nat.days, nat.seconds, nat.microseconds]:
                    _chk(viols, run, rec, op, "timedelta", {"want": [nat.days, nat.seconds, nat.microseconds]})
    return viols, {"l2_evals": n}


def probes(run):
    """rare windows that matter: a reader parked between the two stores of a lazy slot."""
    out = {"preempted_in_lazy_accessor": 0}
    for (fn, _line), k in run.sched.sites.items():
        if fn in ("hours", "minutes", "remaining_seconds", "invert"):
            out["preempted_in_lazy_accessor"] += k
    out["overlap_same_function"] = run.sched.overlaps
    return out


def simplify(sc):
    yield from common.simplify_generic(sc)
