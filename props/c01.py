"""C01 - timezone conversion preserves the instant and matches the tz database.

Facet decided by simulation: conversion results do not depend on thread interleaving or on
the temperature/history of the zone caches (the fixed-offset cache `_tz_cache`, which is in
the property's own anchor list, and zoneinfo's weak cache that decides zone identity),
including chains A->B->C vs A->C where values carry hidden fold state through earlier ops,
across restarts and zone-cache clears, in both helper backends.
"""
from __future__ import annotations

from sim import tzdb

from . import common, gen_dt

ID = "C01"
BUDGET = {"quick": 40.0, "thorough": 600.0}
RUNS = {"quick": 12000}
CROSS_BACKEND = True
US = 10**6

EXTRA_ZONES = ["America/Argentina/Buenos_Aires", "Africa/Monrovia", "Europe/Dublin", "Asia/Pyongyang",
               "America/Caracas", "Antarctica/Troll", "Pacific/Norfolk", "Australia/Eucla"]
FIXED = gen_dt.FIXED + [1, -1, 59, 3599, 86399, -86399, 12345, -9876]
NATIVE_KINDS = ["zoneinfo", "pytz", "dateutil", "timezone"]


def _zone(r):
    return r.choice(FIXED) if r.random() < 0.3 else r.choice(gen_dt.ALL_NAMED + EXTRA_ZONES)


def _instant(r, zone):
    x = r.random()
    if x < 0.75:
        return gen_dt.pick_instant(r, zone)
    if x < 0.9:
        return r.randrange(tzdb.year_start_us(2), tzdb.year_start_us(9998))
    return r.choice([0, 1, -1, 86400 * US, -86400 * US, 2**31 * US, 2**31 * US - 1, -(2**31) * US, 2**32 * US, 253370764800 * US])


def _src(r):
    """(value spec, meta{inst, zone, kind})"""
    zone = _zone(r)
    inst = _instant(r, zone)
    k = r.random()
    if k < 0.7:
        spec, zone, inst, how = gen_dt.dt_value(r, zone=zone, instant=inst)
        return spec, {"inst": inst, "zone": zone, "kind": "pendulum:" + how}
    # aware native datetimes for instance()
    kind = r.choice(NATIVE_KINDS)
    if kind in ("pytz", "dateutil", "zoneinfo") and isinstance(zone, int):
        if zone % 60 or kind == "zoneinfo":
            kind = "timezone"
    if kind == "pytz" and isinstance(zone, str):
        # pytz needs years within its transition table; localize() picks the offset from is_dst
        inst = gen_dt.pick_instant(r, zone, lo_year=1975, hi_year=2035)
        f, off, fold = tzdb.render(zone, inst)
        if off != int(off) or int(off) % 60 or not (1975 <= f[0] <= 2035):
            # pytz rounds sub-minute (LMT-era) offsets to whole minutes: its datetimes then denote
            # a slightly different instant by construction - not a statement about pendulum
            inst = tzdb.year_start_us(r.randint(1980, 2030)) + r.randrange(0, 365 * 86400 * US)
            f, off, fold = tzdb.render(zone, inst)
        ts = tzdb.wall_to_instants(zone, f)
        # is_dst for the occurrence we mean: the earlier one of a repeated wall time is the DST one
        is_dst = bool(len(ts) == 2 and inst == ts[0])
        if not _pytz_agrees(zone, f, is_dst, off):
            # pytz bundles its own copy of the tz database; where it disagrees with the tzdata
            # package (historical corrections, e.g. Asia/Tehran 1979) the source datetime denotes
            # another instant by construction - version skew, not a statement about pendulum
            inst = tzdb.year_start_us(r.randint(2000, 2030)) + r.randrange(0, 365 * 86400 * US)
            f, off, fold = tzdb.render(zone, inst)
            ts = tzdb.wall_to_instants(zone, f)
            is_dst = bool(len(ts) == 2 and inst == ts[0])
            if not _pytz_agrees(zone, f, is_dst, off):
                zone, inst = "UTC", inst
                f, off, fold = tzdb.render(zone, inst)
                is_dst = False
        return {"$": "pytz_loc", "f": f, "k": zone, "is_dst": is_dst}, {"inst": inst, "zone": zone, "kind": "pytz", "off": off}
    f, off, fold = tzdb.render(zone, inst)
    if kind == "dateutil" and isinstance(zone, str):
        inst = gen_dt.pick_instant(r, zone, lo_year=1975, hi_year=2035)
        f, off, fold = tzdb.render(zone, inst)
    if kind == "timezone" and isinstance(zone, str):
        if off != int(off):
            inst = gen_dt.pick_instant(r, zone, lo_year=1975, hi_year=2035)
            f, off, fold = tzdb.render(zone, inst)
        zone = int(off)       # datetime.timezone carries a bare offset
        fold = 0
    spec = {"$": "native", "f": f, "tz": {"$": "ntz", "kind": kind, "k": zone}, "fold": fold}
    return spec, {"inst": inst, "zone": zone, "kind": kind, "off": off}


def _pytz_agrees(zone, f, is_dst, off):
    try:
        import datetime as _dt

        import pytz

        o = pytz.timezone(zone).localize(_dt.datetime(*f), is_dst=is_dst).utcoffset()
        return o is not None and o.days * 86400 + o.seconds == off
    except Exception:
        return False


def _tzarg(r, zone):
    """how the caller names the target zone"""
    if isinstance(zone, int):
        return r.choice([{"$": "tz", "k": zone}, {"$": "fixedtz", "o": zone, "n": None}])
    return r.choice([{"$": "tz", "k": zone}, zone, zone])


def gen(rp, rw, tier):
    pool, meta = [], []
    for _ in range(rp.choice([1, 2, 3])):
        s, m = _src(rp)
        pool.append(s)
        meta.append(m)
    twin_target = None
    if rp.random() < 0.25:
        # both occurrences of one repeated wall time, as two values of the same zone object: they
        # are == and hash alike for the standard library, yet denote instants an hour apart -
        # whatever is remembered about one must not answer for the other
        z = rp.choice(gen_dt.DST_ZONES + gen_dt.MIDNIGHT_ZONES)
        ov = [(t, o0, o1) for t, o0, o1 in tzdb.transitions(z) if o1 < o0]
        if ov:
            t, o0, o1 = rp.choice(ov)
            w = tzdb.us_to_fields((t + o1) * US + rp.randrange(0, (o0 - o1) * US))
            ts = tzdb.wall_to_instants(z, w)
            if len(ts) == 2:
                for fold in rp.sample([0, 1], 2):
                    pool.append({"$": "dt", "f": w, "tz": z, "fold": fold})
                    meta.append({"inst": ts[fold], "zone": z, "kind": "pendulum:constructed"})
                twin_target = rp.choice([zz for zz in gen_dt.ALL_NAMED + EXTRA_ZONES if zz != z])
    # a shared set of fixed offsets several clients will ask for while the cache is cold
    hot = rw.sample(FIXED, 3)
    actors = []
    for c in range(rw.choice([2, 2, 3, 3, 4])):
        ops = []
        for _ in range(rw.choice([1, 2, 3, 4, 5])):
            i = rp.randrange(len(pool))
            T = {"$": "p", "i": i}
            m = meta[i]
            x = rp.random()
            native = not m["kind"].startswith("pendulum")
            if native:
                ops.append(["pcall", "instance", [T]])
                if rp.random() < 0.5:
                    ops.append(["call", {"$": "r", "i": len(ops) - 1}, "in_tz", [_tzarg(rp, _zone(rp))]])
                continue
            if x < 0.35:
                z = _zone(rp) if rp.random() < 0.8 else rp.choice(hot)
                if twin_target is not None and i >= len(pool) - 2:
                    z = twin_target
                ops.append(["call", T, rp.choice(["in_tz", "in_timezone"]), [_tzarg(rp, z)]])
                if rp.random() < 0.45:
                    # chain A -> B -> C
                    z2 = _zone(rp)
                    ops.append(["call", {"$": "r", "i": len(ops) - 1}, "in_tz", [_tzarg(rp, z2)]])
                if rp.random() < 0.2:
                    ops.append(["get", {"$": "r", "i": len(ops) - 1}, "int_timestamp"])
            elif x < 0.47:
                z = _zone(rp)
                tz = rp.choice([{"$": "tz", "k": z}, {"$": "ntz", "kind": "zoneinfo", "k": z} if isinstance(z, str) else {"$": "ntz", "kind": "timezone", "k": z}])
                ops.append(["call", T, "astimezone", [tz]])
            elif x < 0.62:
                z = _zone(rp)
                secs = m["inst"] // US
                ts = rp.choice([secs, secs, secs + 0.5, float(secs)]) if abs(secs) < 2**40 else secs
                ops.append(["pcall", "from_timestamp", [ts], {"tz": _tzarg(rp, z)}])
                j = len(ops) - 1
                ops.append(rp.choice([["get", {"$": "r", "i": j}, "int_timestamp"], ["call", {"$": "r", "i": j}, "timestamp"],
                                      ["get", {"$": "r", "i": j}, "float_timestamp"]]))
            elif x < 0.72:
                ops.append(rp.choice([["get", T, "int_timestamp"], ["call", T, "timestamp"], ["get", T, "offset"], ["get", T, "timezone_name"],
                                      ["call", T, "is_dst"], ["get", T, "offset_hours"]]))
            elif x < 0.86:
                o = rp.choice(hot + [rp.choice(FIXED)])
                ops.append(rp.choice([["pcall", "timezone", [o]],
                                      ["pcall", "parse", ["2021-03-04T05:06:07%s" % _iso_off(o)]] if o % 60 == 0 else ["pcall", "timezone", [o]],
                                      ["pcall", "datetime", [2020, 1, 2, 3, 4, 5], {"tz": {"$": "tz", "k": o}}],
                                      ["pcall", "timezone", [rp.choice(gen_dt.ALL_NAMED + EXTRA_ZONES)]]]))
            else:
                # there and back again
                z = _zone(rp)
                ops.append(["call", T, "in_tz", [_tzarg(rp, z)]])
                ops.append(["call", {"$": "r", "i": len(ops) - 1}, "in_tz", [_tzarg(rp, m["zone"])]])
        actors.append({"name": "T%d" % (c + 1), "ops": ops})
    nem = []
    if rw.random() < 0.4:
        for _ in range(rw.randint(1, 3)):
            nem.append(["nem", "clear_zone_cache"])
    common.add_nemesis_and_barriers(rw, actors, nem, restart_p=0.25)
    return {"world": {}, "pool": pool, "actors": actors, "pool_meta": meta, "step_cap": 30000, "observe_pool": True,
            "horizon": sum(len(a["ops"]) for a in actors) * 40}


def _iso_off(o):
    sign = "-" if o < 0 else "+"
    hh, mm = divmod(abs(o) // 60, 60)
    return "%s%02d:%02d" % (sign, hh, mm)


# ------------------------------------------------------------------------------- L2
def _target_zone(arg):
    if isinstance(arg, str):
        return arg
    if isinstance(arg, dict):
        if arg.get("$") == "tz":
            return arg["k"]
        if arg.get("$") == "fixedtz":
            return arg["o"]
        if arg.get("$") == "ntz":
            return arg["k"]
    return None


def _want_tzobs(zone):
    if isinstance(zone, int):
        return "FixedTimezone", zone
    return "Timezone", zone


def l2_check(run):
    sc = run.sc
    meta = sc["pool_meta"]
    viols = []
    n = 0
    for a in sc["actors"]:
        if a.get("nemesis"):
            continue
        inst_of = {}     # op index -> instant the result denotes (propagated along chains)
        for i, op in enumerate(a["ops"]):
            rec = run.recs.get((a["name"], i))
            if rec is None or op[0] in ("nem", "barrier"):
                continue
            o = rec["obs"]
            label = common.label(op)

            def src_inst(t):
                if isinstance(t, dict) and t.get("$") == "p":
                    return meta[t["i"]]["inst"]
                if isinstance(t, dict) and t.get("$") == "r":
                    return inst_of.get(t["i"])
                return None

            want = None
            zone = None
            if label in ("call:in_tz", "call:in_timezone", "call:astimezone"):
                inst = src_inst(op[1])
                zone = _target_zone(op[3][0])
                if inst is None or zone is None:
                    continue
                inst_of[i] = inst
                want = inst
            elif label == "pcall:from_timestamp":
                ts = op[2][0]
                zone = _target_zone(op[3]["tz"])
                want = int(round(ts * US)) if isinstance(ts, float) else ts * US
                inst_of[i] = want
            elif label == "pcall:instance":
                m = meta[op[2][0]["i"]]
                # the instant a foreign aware datetime denotes is defined by its own tzinfo
                # (dateutil and pytz may disagree with zoneinfo about far-future or negative-DST rules)
                pobs = run.pool_obs[op[2][0]["i"]] if run.pool_obs else None
                if not (isinstance(pobs, list) and pobs and pobs[0] == "native-datetime" and isinstance(pobs[3], (int, float))):
                    continue
                want = tzdb.naive_us(pobs[1]) - int(round(pobs[3] * US))
                # later ops of a chain are judged against what this op returned
                if isinstance(o, list) and o and o[0] == "DateTime" and isinstance(o[3], (int, float)):
                    inst_of[i] = tzdb.naive_us(o[1]) - int(round(o[3] * US))
                zone = m["zone"]
                n += 1
                # instant and offset are fixed by the statement; the zone is "requested" only where the
                # foreign tzinfo names it (zoneinfo key, pytz zone); dateutil/timezone carry just an offset
                ok = isinstance(o, list) and o and o[0] == "DateTime" and o[3] is not None and \
                    tzdb.naive_us(o[1]) - int(round(o[3] * US)) == want
                if ok and m["kind"] in ("zoneinfo", "pytz") and isinstance(zone, str):
                    ok = o[4] == ["Timezone", zone]
                if not ok:
                    viols.append({"oracle": "L2.instance", "label": label, "actor": a["name"], "i": i, "op": op, "sim_obs": o,
                                  "detail": {"source": sc["pool"][op[2][0]["i"]], "source_obs": pobs, "want_instant_us": want},
                                  "facts": {"kind": m["kind"], "wall": _wall_class(zone, want)}, "sig_extra": [m["kind"], _wall_class(zone, want)]})
                continue
            elif label in ("get:int_timestamp", "call:timestamp", "get:float_timestamp"):
                inst = src_inst(op[1])
                if inst is None:
                    continue
                n += 1
                if label == "get:int_timestamp":
                    ok = o == inst // US
                else:
                    ok = isinstance(o, list) and o[0] == "float" and abs(float(o[1]) - inst / US) <= max(1e-6, abs(inst / US) * 1e-15)
                if not ok:
                    viols.append({"oracle": "L2.timestamp", "label": label, "actor": a["name"], "i": i, "op": op, "sim_obs": o,
                                  "detail": {"want_seconds": inst / US}, "facts": {}})
                continue
            else:
                continue
            n += 1
            try:
                f, off, _ = tzdb.render(zone, want)
            except (OverflowError, ValueError):
                continue
            kind, name = _want_tzobs(zone)
            ok = isinstance(o, list) and o and o[0] == "DateTime" and o[1] == f and o[3] == off and o[4] is not None and o[4][0] == kind \
                and (o[4][1] == name if kind == "Timezone" else o[4][2] == name)
            if label == "call:astimezone" and isinstance(op[3][0], dict) and op[3][0].get("$") == "ntz":
                # a foreign tzinfo is kept as given: only instant, fields and offset are fixed
                ok = isinstance(o, list) and o and o[0] == "DateTime" and o[1] == f and o[3] == off
            if not ok:
                if isinstance(o, list) and o and o[0] == "EXC" and o[1] in ("OverflowError", "ValueError") and not (2 <= f[0] <= 9998):
                    continue
                viols.append({"oracle": "L2.conversion", "label": label, "actor": a["name"], "i": i, "op": op, "sim_obs": o,
                              "detail": {"instant_us": want, "zone": zone, "want_fields": f, "want_offset": off},
                              "facts": {"raises": o[1] if isinstance(o, list) and o and o[0] == "EXC" else None,
                                        "fixed": isinstance(zone, int), "whole_minute": (not isinstance(zone, int)) or zone % 60 == 0}})
    return viols, {"l2_evals": n}


def _wall_class(zone, inst):
    try:
        if isinstance(zone, int):
            return "unique"
        return tzdb.classify(zone, tzdb.render(zone, inst)[0])
    except Exception:
        return "?"


def xb_facts(sc, diff):
    return {}


def probes(run):
    out = {"preempted_in_fixed_timezone_cache": 0, "restart_between_dependent_ops": 0}
    for (fn, _l), k in run.sched.sites.items():
        if fn in ("fixed_timezone", "timezone", "_safe_timezone", "__init__"):
            out["preempted_in_fixed_timezone_cache"] += k
    if any("restart" in k for _, k in run.barriers):
        for a in run.sc["actors"]:
            seen_barrier = False
            for op in a["ops"]:
                if op[0] == "barrier":
                    seen_barrier = True
                elif seen_barrier and '"$": "r"' in __import__("json").dumps(op):
                    out["restart_between_dependent_ops"] += 1
                    break
    return out


def simplify(sc):
    yield from common.simplify_generic(sc)
