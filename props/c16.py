"""C16 - weekday navigation lands on the right day inside the right unit.

Facet decided by simulation: next/previous/first_of/last_of/nth_of must not depend on
foreign process-wide state another actor may change at any instant - concretely
calendar.setfirstweekday(), through which calendar.monthcalendar() is read - nor on
week configuration, cache temperature or interleaving.
"""
from __future__ import annotations

import calendar as _cal
import datetime as _dt

from sim import tzdb

from . import common, gen_dt
from .c12 import _input_obs, zone_of

ID = "C16"
BUDGET = {"quick": 40.0, "thorough": 600.0}
RUNS = {"quick": 9000}
UNITS = ["month", "quarter", "year"]


def _wd(r, allow_none=True):
    if allow_none and r.random() < 0.15:
        return None
    return {"$": "wd", "v": r.randrange(7)}


def _nav_op(r, T, is_dt):
    x = r.random()
    if x < 0.22:
        kw = {"keep_time": True} if (is_dt and r.random() < 0.3) else {}
        return ["call", T, r.choice(["next", "previous"]), [_wd(r)], kw]
    if x < 0.62:
        return ["call", T, r.choice(["first_of", "last_of"]), [r.choice(UNITS), _wd(r)]]
    u = r.choice(UNITS)
    # large n costs ~300 yield points per step of the search loop: keep them rare
    if r.random() < 0.12:
        n = r.choice({"month": [5, 6], "quarter": [13, 14, 15], "year": [26, 52, 53, 54]}[u])
    else:
        n = r.choice({"month": [1, 2, 3, 4, 5], "quarter": [1, 2, 3, 5], "year": [1, 2, 3, 6]}[u])
    return ["call", T, "nth_of", [u, n, _wd(r, allow_none=False)]]


_GAPS = {}
_GAP_HINT = [None]


def _carried_gap_value(r):
    """a DateTime (fold=0) whose time of day is skipped on another date of its month, quarter or
    year - a date the navigation moves to (first day of the quarter, of its last month, the n-th
    weekday): the time of day must be dropped before the date is moved."""
    z = r.choice(gen_dt.MIDNIGHT_ZONES + gen_dt.DST_ZONES)
    if z not in _GAPS:
        gs = [(tzdb.us_to_fields((t + o0) * 10**6), o1 - o0) for t, o0, o1 in tzdb.transitions(z) if o1 > o0]
        _GAPS[z] = (gs, [g for g in gs if g[0][2] == 1])
    gs, first = _GAPS[z]
    late = [g for g in gs if g[0][3] >= 22]      # a gap that pushes a kept time onto the following day
    pick = late if (late and r.random() < 0.4) else first if (first and r.random() < 0.6) else gs
    if not pick:
        return None
    w, width = r.choice(pick)
    tod = tzdb.us_to_fields(tzdb.naive_us(w) + r.randrange(0, width) * 10**6 + r.choice([0, r.randrange(10**6)]))
    if tod[:3] != w[:3]:
        return None
    y, m, d = w[:3]
    k = r.random()
    if k < 0.6:
        m2 = (m - 1) // 3 * 3 + 1 + r.randrange(3)
        d2 = r.randint(1, _cal.monthrange(y, m2)[1])
    elif k < 0.8:
        m2, d2 = m, r.randint(1, _cal.monthrange(y, m)[1])
    else:
        m2 = r.randint(1, 12)
        d2 = min(d, _cal.monthrange(y, m2)[1])
    if r.random() < 0.3:
        # a few days from the gap: a keep_time search steps *through* the day that lacks the time
        dd = _dt.date(y, m, d) + _dt.timedelta(days=r.choice([-6, -3, -2, -1, 1, 2, 3, 6]))
        m2, d2 = dd.month, dd.day
        if dd.year != y:
            return None
    f = [y, m2, d2] + tod[3:]
    if tzdb.classify(z, f) != "unique":
        return None
    _GAP_HINT[0] = [y, m, d]
    return {"$": "dt", "f": f, "tz": z, "fold": r.choice([0, 0, 0, 1])}


_REP_SKIP = {}
_REP_SKIP_ZONES = ["Europe/Moscow", "Asia/Amman", "America/Havana", "Asia/Beirut", "Asia/Gaza", "Africa/Cairo", "America/Asuncion",
                   "Asia/Damascus", "Europe/Athens"]


def _repeated_midnight_value(r):
    """a DateTime on a day whose own midnight is repeated, in a year where the same zone skips the
    midnight of a first-of-month: the occurrence chosen for the own midnight must not decide how
    the target midnight is resolved."""
    z = r.choice(_REP_SKIP_ZONES)
    if z not in _REP_SKIP:
        skips, reps = {}, {}
        for t, o0, o1 in tzdb.transitions(z):
            w0, w1 = tzdb.us_to_fields((t + o0) * 10**6), tzdb.us_to_fields((t + o1) * 10**6)
            if o1 > o0 and w0[2] == 1 and w0[3:6] == [0, 0, 0]:
                skips.setdefault(w0[0], []).append(w0[:3])
            if o1 < o0:
                for d in (w0[:3], w1[:3]):
                    if tzdb.classify(z, d + [0, 0, 0, 0]) == "repeated":
                        reps.setdefault(d[0], []).append(d)
        _REP_SKIP[z] = [(rd, sk) for y in reps if y in skips for rd in reps[y] for sk in skips[y]]
    if not _REP_SKIP[z]:
        return None
    rd, _sk = r.choice(_REP_SKIP[z])
    f = rd + [r.choice([0, 0, 12, r.randint(0, 23)]), r.choice([0, 30, r.randint(0, 59)]), 0, 0]
    c = tzdb.classify(z, f)
    if c == "skipped":
        return None
    return {"$": "dt", "f": f, "tz": z, "fold": r.randrange(2)}


def gen(rp, rw, tier):
    pool, meta = [], []
    hint = None
    if rp.random() < 0.15:
        _GAP_HINT[0] = None
        s = _carried_gap_value(rp) if rp.random() < 0.6 else _repeated_midnight_value(rp)
        if s is not None:
            pool.append(s)
            meta.append("dt")
            hint = _GAP_HINT[0]
    for _ in range(rp.choice([1, 2, 2, 3])):
        if rp.random() < 0.4:
            pool.append(gen_dt.date_value(rp))
            meta.append("date")
        else:
            zone = gen_dt.pick_zone(rp, allow_naive=True, midnight_bias=0.35)
            s, _, _, _ = gen_dt.dt_value(rp, zone=zone)
            pool.append(s)
            meta.append("dt")
    if rp.random() < 0.3:
        # the same instant seen from two zones whose local dates (often: months) differ
        y, m = rp.randint(1975, 2035), rp.randint(1, 12)
        last = _cal.monthrange(y, m)[1]
        inst = tzdb.naive_us([y, m, rp.choice([last, last, 1, rp.randint(1, last)]), rp.choice([22, 23, 0, 1, rp.randint(0, 23)]), rp.randint(0, 59), 0, 0])
        for z in rp.sample(["UTC", "Asia/Tokyo", "America/New_York", "Pacific/Auckland", "America/Los_Angeles", "Asia/Kolkata", 50400, -43200], 2):
            s_, _, _, _ = gen_dt.dt_value(rp, zone=z, instant=inst, how=rp.choice(["constructed", "converted"]))
            pool.append(s_)
            meta.append("dt")
    actors = []
    for c in range(rw.choice([1, 2, 2, 3])):
        ops = []
        for _ in range(rw.choice([1, 2, 3, 4, 6])):
            i = rp.randrange(len(pool))
            ops.append(_nav_op(rp, {"$": "p", "i": i}, meta[i] == "dt"))
            if rp.random() < 0.2:
                # chains: navigation of a navigated value
                ops.append(_nav_op(rp, {"$": "r", "i": len(ops) - 1}, meta[i] == "dt"))
        if c == 0 and hint is not None and rp.random() < 0.7:
            # search with the time kept, towards and across the day that lacks it
            g = _dt.date(*hint)
            x = _dt.date(*pool[0]["f"][:3])
            tgt = g + _dt.timedelta(days=rp.choice([0, 1, 1, -1]))
            if tgt != x:
                # appended, never inserted: {"$": "r"} references count ops by position
                ops.append(["call", {"$": "p", "i": 0}, "next" if tgt > x else "previous",
                            [{"$": "wd", "v": tgt.weekday()}], {"keep_time": True}])
        actors.append({"name": "T%d" % (c + 1), "ops": ops})
    world = {"week_start": rw.randrange(7), "week_end": rw.randrange(7)}
    if rw.random() < 0.3:
        world["cal_fwd"] = rw.randrange(7)
    nem = []
    if rw.random() < 0.6:
        for _ in range(rw.randint(1, 3)):
            k = rw.random()
            if k < 0.7:
                nem.append(["nem", "cal_fwd", rw.randrange(7)])
            elif k < 0.85:
                nem.append(["nem", "week_start", rw.randrange(7)])
            else:
                nem.append(["nem", "clear_zone_cache"])
    common.add_nemesis_and_barriers(rw, actors, nem, restart_p=0.1)
    steps = sum(len(a["ops"]) for a in actors) * 120
    return {"world": world, "pool": pool, "actors": actors, "horizon": steps, "step_cap": 40000, "observe_pool": True}


def extend_candidates(run, rec, op, cands):
    # the statement has no dependence on the calendar module's display setting: the reference
    # answer is the one in the default environment, whatever the register holds
    cands["cal_fwd"] = [0]
    return False


# --------------------------------------------------------------------------- model
def _unit_range(d: _dt.date, unit):
    if unit == "month":
        return _dt.date(d.year, d.month, 1), _dt.date(d.year, d.month, _cal.monthrange(d.year, d.month)[1])
    if unit == "quarter":
        q = (d.month - 1) // 3
        m0 = q * 3 + 1
        return _dt.date(d.year, m0, 1), _dt.date(d.year, m0 + 2, _cal.monthrange(d.year, m0 + 2)[1])
    return _dt.date(d.year, 1, 1), _dt.date(d.year, 12, 31)


def model_date(d, op):
    """-> target date | "PendulumException" | None (statement silent / out of range)"""
    m = op[2]
    a = op[3]
    try:
        if m in ("next", "previous"):
            wd = a[0]["v"] if a and a[0] is not None else d.weekday()
            for k in range(1, 8):
                t = d + _dt.timedelta(days=k if m == "next" else -k)
                if t.weekday() == wd:
                    return t
        lo, hi = _unit_range(d, a[0])
        if m in ("first_of", "last_of"):
            wd = a[1]["v"] if len(a) > 1 and a[1] is not None else None
            if wd is None:
                return lo if m == "first_of" else hi
            t = lo if m == "first_of" else hi
            step = _dt.timedelta(days=1 if m == "first_of" else -1)
            while t.weekday() != wd:
                t += step
            return t
        if m == "nth_of":
            n, wd = a[1], a[2]["v"]
            t = lo
            while t.weekday() != wd:
                t += _dt.timedelta(days=1)
            t += _dt.timedelta(days=7 * (n - 1))
            return t if t <= hi else "PendulumException"
    except OverflowError:
        return None
    return None


def l2_check(run):
    sc = run.sc
    viols = []
    n = 0
    for a in sc["actors"]:
        if a.get("nemesis"):
            continue
        for i, op in enumerate(a["ops"]):
            if op[0] != "call" or op[2] not in ("next", "previous", "first_of", "last_of", "nth_of"):
                continue
            rec = run.recs.get((a["name"], i))
            xobs = _input_obs(run, a, op)
            if rec is None or not (isinstance(xobs, list) and xobs and xobs[0] in ("DateTime", "Date")):
                continue
            robs = rec["obs"]
            d = _dt.date(*xobs[1][:3])
            want = model_date(d, op)
            if want is None:
                continue
            keep = len(op) > 4 and op[4].get("keep_time")
            fail = None
            zone = zone_of(xobs[4]) if xobs[0] == "DateTime" else None
            if want == "PendulumException":
                n += 1
                if not (isinstance(robs, list) and robs[:2] == ["EXC", "PendulumException"]):
                    fail = {"want": "PendulumException"}
            else:
                wf = [want.year, want.month, want.day]
                if xobs[0] == "Date":
                    n += 1
                    if robs != ["Date", wf]:
                        fail = {"want": ["Date", wf]}
                else:
                    tod = xobs[1][3:] if keep else [0, 0, 0, 0]
                    w = wf + tod
                    if isinstance(zone, tuple):
                        continue
                    if zone is None:
                        n += 1
                        if not (isinstance(robs, list) and robs[0] == "DateTime" and robs[1] == w and robs[4] is None):
                            fail = {"want": w}
                    else:
                        try:
                            cls = tzdb.classify(zone, w)
                            # the calendar day the statement names does not exist in this zone
                            # (Pacific/Kiritimati 1994-12-31, Pacific/Apia 2011-12-30): no answer
                            # can satisfy it, with or without keep_time
                            if tzdb.classify(zone, wf + [0, 0, 0, 0]) == "skipped" and tzdb.classify(zone, wf + [23, 59, 59, 999999]) == "skipped":
                                continue
                        except (OverflowError, ValueError):
                            continue
                        if cls == "skipped" and not keep:
                            # midnight does not exist: the day starts at the end of the gap
                            t = tzdb.first_instant_at_or_after_wall(zone, w)
                            rf, off, _ = tzdb.render(zone, t)
                            n += 1
                            if not (isinstance(robs, list) and robs[0] == "DateTime" and robs[1] == rf and robs[3] == off and robs[4] == xobs[4]):
                                fail = {"want": [rf, off], "midnight": "skipped"}
                        elif cls == "unique":
                            t = tzdb.wall_to_instants(zone, w)[0]
                            off = tzdb.render(zone, t)[1]
                            n += 1
                            if not (isinstance(robs, list) and robs[0] == "DateTime" and robs[1] == w and robs[3] == off and robs[4] == xobs[4]):
                                fail = {"want": [w, off]}
                        else:
                            # repeated target wall time / skipped kept time: only the calendar day is fixed by the statement
                            n += 1
                            if not (isinstance(robs, list) and robs[0] == "DateTime" and robs[1][:3] == wf and robs[4] == xobs[4]):
                                fail = {"want_date": wf, "wall": cls, "kept_time": cls if keep else None}
            if fail is not None:
                boundary = "n/a"
                if xobs[0] == "DateTime" and isinstance(zone, (str, int)):
                    boundary = "clean"
                    span = [d]
                    if isinstance(want, _dt.date):
                        span.append(want)
                    if op[2] in ("first_of", "last_of", "nth_of"):
                        span += list(_unit_range(d, op[3][0]))
                    # every calendar day the navigation may step through
                    lo_d, hi_d = min(span) - _dt.timedelta(days=1), max(span) + _dt.timedelta(days=1)
                    days = [lo_d + _dt.timedelta(days=k) for k in range((hi_d - lo_d).days + 1)]
                    try:
                        for dd in days:
                            for tod in ([0, 0, 0, 0], [23, 59, 59, 999999]):
                                c = tzdb.classify(zone, [dd.year, dd.month, dd.day] + tod)
                                if c != "unique":
                                    boundary = c
                    except Exception:
                        boundary = "?"
                from .c12 import _input_fold

                fail["input_fold"] = _input_fold(run, a, op)
                fail["input"] = xobs
                fail["cal_fwd_during_op"] = [w[3] for w in run.regw if w[2] == "cal_fwd"]
                viols.append({"oracle": "L2.navigation", "label": common.label(op), "actor": a["name"], "i": i, "op": op,
                              "sim_obs": robs, "detail": fail,
                              "sig_extra": [boundary],
                              "facts": {"method": op[2], "type": xobs[0], "boundary": boundary, "kept_time": fail.get("kept_time"),
                                        "class": "%s/%s/fold%s" % (op[2], boundary, fail["input_fold"]),
                                        "raises": robs[1] if isinstance(robs, list) and robs and robs[0] == "EXC" else None}})
    return viols, {"l2_evals": n}


def probes(run):
    out = {"first_last_of_with_nondefault_calendar": 0}
    vals = [w for w in run.regw if w[2] == "cal_fwd" and w[3] != 0]
    if vals:
        for a in run.sc["actors"]:
            for i, op in enumerate(a["ops"]):
                if op[0] == "call" and op[2] in ("first_of", "last_of", "nth_of"):
                    rec = run.recs.get((a["name"], i))
                    if rec and any(w[0] < rec["ret"] for w in vals):
                        out["first_last_of_with_nondefault_calendar"] += 1
    return out


def simplify(sc):
    yield from common.simplify_generic(sc)
