"""C12 - start_of/end_of delimit exactly the calendar unit that contains the value.

Facet decided by simulation: "weeks follow week_starts_at()/week_ends_at()" while that
process-wide configuration is being changed by another actor (register linearizability),
and "the result does not depend on how the value was obtained" across op histories
(constructed / converted / parsed / produced by earlier ops; both fold values circulate),
cache restarts and clock-derived values (today()).
"""
from __future__ import annotations

import calendar as _cal
import datetime as _dt

from sim import tzdb
from sim.engine import reg_candidates

from . import common, gen_dt

ID = "C12"
BUDGET = {"quick": 40.0, "thorough": 600.0}
RUNS = {"quick": 24000}

DT_UNITS = ["second", "minute", "hour", "day", "week", "month", "year", "decade", "century"]
D_UNITS = ["day", "week", "month", "year", "decade", "century"]


def _pool_value(r):
    x = r.random()
    if x < 0.18:
        return gen_dt.date_value(r), {"kind": "date"}
    zone = gen_dt.pick_zone(r, allow_naive=True, midnight_bias=0.35)
    spec, zone, inst, how = gen_dt.dt_value(r, zone=zone)
    if isinstance(zone, str) and spec.get("$") == "dt" and r.random() < 0.12:
        # the same value built with the inherited constructor: it carries zoneinfo's object
        ts = tzdb.wall_to_instants(zone, spec["f"])
        spec = {"$": "dt_raw", "f": spec["f"], "tz": zone, "fold": 1 if (len(ts) == 2 and inst == ts[1]) else 0}
        how = "raw"
    return spec, {"kind": "dt", "zone": zone, "how": how}


def gen(rp, rw, tier):
    npool = rp.choice([1, 2, 2, 3, 4])
    pool, meta = [], []
    for _ in range(npool):
        s, m = _pool_value(rp)
        pool.append(s)
        meta.append(m)
    # the same instant obtained in two different ways (statement: result independent of provenance)
    if rp.random() < 0.35:
        zone = gen_dt.pick_zone(rp, allow_fixed=False, midnight_bias=0.6)
        inst = gen_dt.pick_instant(rp, zone)
        inst -= inst % gen_dt.US
        for how in rp.sample(["constructed", "converted", "parsed", "timestamp", "constructed_fold0"], 2):
            s, _, _, _ = gen_dt.dt_value(rp, zone=zone, how=how, instant=inst)
            pool.append(s)
            meta.append({"kind": "dt", "zone": zone, "how": how})
    nclients = rw.choice([1, 2, 2, 3])
    actors = []
    for c in range(nclients):
        ops = []
        for _ in range(rw.choice([1, 2, 3, 4, 6])):
            i = rp.randrange(len(pool))
            T = {"$": "p", "i": i}
            units = D_UNITS if meta[i]["kind"] == "date" else DT_UNITS
            u = rp.choice(units + ["week", "week", "day"])
            x = rp.random()
            if x < 0.55:
                ops.append(["call", T, rp.choice(["start_of", "end_of"]), [u]])
                if rp.random() < 0.35:
                    j = len(ops) - 1
                    ops.append(["call", {"$": "r", "i": j}, ops[j][2], [u]])     # idempotence
            elif x < 0.70 and meta[i]["kind"] == "dt":
                # the value travels through another op first
                via = rp.choice([["call", T, "in_tz", [gen_dt.tz_spec(gen_dt.pick_zone(rp, midnight_bias=0.4))]],
                                 ["call", T, "add", [], {rp.choice(["days", "hours", "months"]): rp.randint(-3, 3)}],
                                 ["call", T, rp.choice(["start_of", "end_of"]), [rp.choice(DT_UNITS)]],
                                 ["call", T, "set", [], {"hour": rp.choice([0, 1, 23]), "minute": rp.choice([0, 30, 59])}]])
                ops.append(via)
                ops.append(["call", {"$": "r", "i": len(ops) - 1}, rp.choice(["start_of", "end_of"]), [u]])
            elif x < 0.80:
                # clock-derived values
                z = gen_dt.pick_zone(rp, allow_fixed=False, midnight_bias=0.4)
                ops.append(["pcall", rp.choice(["today", "tomorrow", "yesterday", "now"]), [], {"tz": gen_dt.tz_spec(z)}])
                ops.append(["call", {"$": "r", "i": len(ops) - 1}, rp.choice(["start_of", "end_of"]), [rp.choice(DT_UNITS)]])
            else:
                ops.append(["call", T, rp.choice(["start_of", "end_of"]), ["week"]])
        actors.append({"name": "T%d" % (c + 1), "ops": ops})
    ws = rw.randrange(7)
    world = {"week_start": ws, "week_end": (ws + 6) % 7 if rw.random() < 0.8 else rw.randrange(7)}
    zone0 = next((m.get("zone") for m in meta if isinstance(m.get("zone"), str)), "UTC")
    world["clock"] = gen_dt.pick_instant(rw, zone0)
    nem = []
    if rw.random() < 0.6:
        for _ in range(rw.randint(1, 4)):
            k = rw.random()
            if k < 0.45:
                nem.append(["nem", "week_start", rw.choice([7, -1, 9]) if rw.random() < 0.1 else rw.randrange(7)])
            elif k < 0.9:
                nem.append(["nem", "week_end", rw.choice([7, -1, 9]) if rw.random() < 0.1 else rw.randrange(7)])
            else:
                nem.append(["nem", "clock", world["clock"] + rw.choice([1, -1, 86400 * 10**6, rw.randrange(-10**12, 10**12)])])
    common.add_nemesis_and_barriers(rw, actors, nem, restart_p=0.12)
    steps = sum(len(a["ops"]) for a in actors) * 60
    return {"world": world, "pool": pool, "actors": actors, "horizon": steps, "step_cap": 30000,
            "observe_pool": True, "pool_meta": meta}


# ------------------------------------------------------------------------ reference model
def unit_walls(f, u, ws, we):
    """(start wall, end wall) of the unit containing local wall time f = [y,m,d,H,M,S,us]."""
    y, m, d, H, M, S, us = f
    if u == "second":
        return [y, m, d, H, M, S, 0], [y, m, d, H, M, S, 999999]
    if u == "minute":
        return [y, m, d, H, M, 0, 0], [y, m, d, H, M, 59, 999999]
    if u == "hour":
        return [y, m, d, H, 0, 0, 0], [y, m, d, H, 59, 59, 999999]
    if u == "day":
        return [y, m, d, 0, 0, 0, 0], [y, m, d, 23, 59, 59, 999999]
    if u == "week":
        day = _dt.date(y, m, d)
        wd = day.weekday()
        s = e = None
        try:
            s = day - _dt.timedelta(days=(wd - ws) % 7)
        except OverflowError:
            pass
        try:
            e = day + _dt.timedelta(days=(we - wd) % 7)
        except OverflowError:
            pass
        return (None if s is None else [s.year, s.month, s.day, 0, 0, 0, 0],
                None if e is None else [e.year, e.month, e.day, 23, 59, 59, 999999])
    if u == "month":
        return [y, m, 1, 0, 0, 0, 0], [y, m, _cal.monthrange(y, m)[1], 23, 59, 59, 999999]
    if u == "year":
        return [y, 1, 1, 0, 0, 0, 0], [y, 12, 31, 23, 59, 59, 999999]
    if u == "decade":
        y0 = y - y % 10
        return [y0, 1, 1, 0, 0, 0, 0], [y0 + 9, 12, 31, 23, 59, 59, 999999]
    if u == "century":
        y0 = (y - 1) // 100 * 100 + 1
        return [y0, 1, 1, 0, 0, 0, 0], [y0 + 99, 12, 31, 23, 59, 59, 999999]
    raise ValueError(u)


def zone_of(tzobs):
    if tzobs is None:
        return None
    if tzobs[0] == "Timezone":
        return tzobs[1]
    if tzobs[0] == "FixedTimezone":
        return tzobs[2]
    if tzobs[0] == "ZoneInfo" and isinstance(tzobs[1], str) and "/" in tzobs[1] or tzobs[:2] == ["ZoneInfo", "UTC"]:
        return tzobs[1]          # a DateTime still carrying the foreign tzinfo it was constructed with
    return ("?", tzobs)


def _input_obs(run, a, op):
    t = op[1]
    if isinstance(t, dict):
        if t.get("$") == "p":
            return run.pool_obs[t["i"]] if run.pool_obs else None
        if t.get("$") == "r":
            rec = run.recs.get((a["name"], t["i"]))
            return rec["obs"] if rec else None
    return None


def _input_fold(run, a, op):
    t = op[1]
    if isinstance(t, dict):
        if t.get("$") == "p":
            return run.pool_fold[t["i"]]
        if t.get("$") == "r":
            rec = run.recs.get((a["name"], t["i"]))
            return rec.get("fold") if rec else None
    return None


def expected(xobs, u, which, ws, we):
    """model answer: ("dt", fields, offset) | ("date", fields) | None when out of range."""
    kind = xobs[0]
    if kind == "Date":
        w = unit_walls(xobs[1] + [0, 0, 0, 0], u, ws, we)[0 if which == "start_of" else 1]
        return None if (w is None or not (1 <= w[0] <= 9999)) else ("date", w[:3], None)
    f = xobs[1]
    w = unit_walls(f, u, ws, we)[0 if which == "start_of" else 1]
    if w is None or not (1 <= w[0] <= 9999):
        return None
    zone = zone_of(xobs[4])
    if zone is None:
        return ("dt", w, None)
    if isinstance(zone, tuple):
        return None
    try:
        if which == "start_of":
            t = tzdb.first_instant_at_or_after_wall(zone, w)
        else:
            t = tzdb.last_instant_at_or_before_wall(zone, w)
        rf, off, _fold = tzdb.render(zone, t)
    except (OverflowError, ValueError):
        return None
    return ("dt", rf, off)


def expected_own_occurrence(xobs, u, which):
    """second/minute/hour of a value that is itself inside a repeated period: the unit may also be
    read as the one of the value's own occurrence (the reading the repository's own tests pin:
    02:59:59+01:00 Europe/Paris .start_of('hour') keeps +01:00) -> ("dt", fields, offset) | None when
    it does not apply."""
    if xobs[0] != "DateTime" or u not in ("second", "minute", "hour"):
        return None
    zone = zone_of(xobs[4])
    if not isinstance(zone, str):
        return None
    f = xobs[1]
    try:
        own = tzdb.wall_to_instants(zone, f)
        if len(own) != 2:
            return None
        w = unit_walls(f, u, 0, 6)[0 if which == "start_of" else 1]
        ts = tzdb.wall_to_instants(zone, w)
        if len(ts) != 2:
            return None
        x_inst = tzdb.naive_us(f) - int(xobs[3]) * 10**6
        t = ts[own.index(x_inst)]
        rf, off, _fold = tzdb.render(zone, t)
    except (OverflowError, ValueError):
        return None
    return ("dt", rf, off)


def l2_check(run):
    sc = run.sc
    viols = []
    n = 0
    for a in sc["actors"]:
        if a.get("nemesis"):
            continue
        for i, op in enumerate(a["ops"]):
            if op[0] != "call" or op[2] not in ("start_of", "end_of"):
                continue
            rec = run.recs.get((a["name"], i))
            if rec is None:
                continue
            xobs = _input_obs(run, a, op)
            if not (isinstance(xobs, list) and xobs and xobs[0] in ("DateTime", "Date")):
                continue
            robs = rec["obs"]
            u = op[3][0]
            if xobs[0] == "Date" and u not in D_UNITS:
                continue
            cands = reg_candidates(run, rec)
            answers = []
            for ws in cands["week_start"]:
                for we in cands["week_end"]:
                    e = expected(xobs, u, op[2], ws, we)
                    if e not in answers:
                        answers.append(e)
            if None in answers:
                continue   # unit boundary outside years 1..9999 or foreign tzinfo: statement silent
            own = expected_own_occurrence(xobs, u, op[2])
            if own is not None:
                # start_of and end_of must delimit the *same* unit: inside a repeated period the
                # library's (tested, documented) unit for second/minute/hour is the one of the
                # value's own occurrence, so that is the answer for both ends
                answers = [own]
            n += 1
            ok = False
            got = None
            if isinstance(robs, list) and robs and robs[0] == xobs[0]:
                if xobs[0] == "Date":
                    got = ("date", robs[1], None)
                else:
                    got = ("dt", robs[1], robs[3])
                    if robs[4] != xobs[4] and not (zone_of(robs[4]) == zone_of(xobs[4]) and isinstance(zone_of(xobs[4]), str)):
                        got = ("dt-other-zone", robs[1], robs[3])
                ok = got in answers
            if not ok:
                zone = zone_of(xobs[4]) if xobs[0] == "DateTime" else None
                f7 = (xobs[1] + [0, 0, 0, 0])[:7]
                boundary = "n/a"
                if isinstance(zone, (str, int)):
                    boundary = "unique"
                    try:
                        for ws in cands["week_start"]:
                            for we in cands["week_end"]:
                                w = unit_walls(f7, u, ws, we)[0 if op[2] == "start_of" else 1]
                                if w is None:
                                    continue
                                c = tzdb.classify_fold(zone, w)
                                if c == "skipped":
                                    # at the edge of the gap (the unit starts/ends exactly where the gap
                                    # does) or strictly inside it (zones with transitions off the hour)
                                    nb = tzdb.us_to_fields(tzdb.naive_us(w) + (-1 if op[2] == "start_of" else 1))
                                    c = "skipped-inside" if tzdb.classify(zone, nb) == "skipped" else "skipped"
                                if c == "skipped" and tzdb.classify(zone, w[:3] + [0, 0, 0, 0]) == "skipped" \
                                        and tzdb.classify(zone, w[:3] + [23, 59, 59, 999999]) == "skipped":
                                    c = "whole-day-skipped"
                                if c != "unique":
                                    boundary = c
                        if boundary == "unique":
                            # the implementation goes through the value's own day start / day end
                            d0 = tzdb.classify_fold(zone, f7[:3] + [0, 0, 0, 0])
                            d1 = tzdb.classify_fold(zone, f7[:3] + [23, 59, 59, 999999])
                            if d0 != "unique":
                                boundary = "own-day-start-" + d0
                            elif d1 != "unique":
                                boundary = "own-day-end-" + d1
                    except Exception:
                        boundary = "?"
                viols.append({
                    "oracle": "L2.unit_boundary", "label": common.label(op), "actor": a["name"], "i": i, "op": op,
                    "sim_obs": robs,
                    "detail": {"input": xobs, "input_fold": _input_fold(run, a, op), "unit": u, "model": answers,
                               "week_candidates": [cands["week_start"], cands["week_end"]]},
                    "facts": {"which": op[2], "boundary": boundary, "type": xobs[0],
                              "class": "%s/%s/fold%s" % (op[2], boundary, _input_fold(run, a, op)),
                              "raises": robs[1] if isinstance(robs, list) and robs and robs[0] == "EXC" else None},
                    "sig_extra": [boundary],
                })
    return viols, {"l2_evals": n}


def probes(run):
    out = {"week_config_written_during_week_op": 0, "preempted_in_start_end_of_week": 0}
    for (fn, _line), k in run.sched.sites.items():
        if fn in ("_start_of_week", "_end_of_week"):
            out["preempted_in_start_end_of_week"] += k
    writes = [w for w in run.regw if w[2] in ("week_start", "week_end") and w[0] > 0]
    if writes:
        for a in run.sc["actors"]:
            for i, op in enumerate(a["ops"]):
                if op[0] == "call" and op[2] in ("start_of", "end_of") and op[3] == ["week"]:
                    rec = run.recs.get((a["name"], i))
                    if rec and any(w[0] < rec["ret"] and w[1] > rec["inv"] for w in writes):
                        out["week_config_written_during_week_op"] += 1
    return out


def simplify(sc):
    yield from common.simplify_generic(sc)
