"""C02 - wall-clock construction is normalised by the documented DST rules.

Facet decided by simulation: local() and tz="local"/tz=None construction use *a* local
zone that really is configured - the mock if set, else a zone some configuration source
names - under concurrent set_local_timezone(), under file-system/environment faults during
local-zone discovery and across restarts; the value returned is always aware and normalised
by that zone's rules; after faults stop the next call succeeds.  Explicit-zone construction
runs in the same workload so the DST-rule reference model also sees non-local zones.
"""
from __future__ import annotations

import io
import re
import zoneinfo

from sim import tzdb
from sim.engine import reg_candidates

from . import common, gen_dt

ID = "C02"
BUDGET = {"quick": 40.0, "thorough": 600.0}
RUNS = {"quick": 32000}

LOCAL_ZONES = ["Europe/Paris", "America/New_York", "Australia/Lord_Howe", "America/Sao_Paulo", "Asia/Tokyo",
               "Pacific/Kiritimati", "America/St_Johns", "Asia/Kathmandu", "Europe/London",
               "America/Argentina/Buenos_Aires", "America/Havana", "Africa/Monrovia", "Etc/GMT+10", "UTC"]


# ------------------------------------------------------------------ configuration sources
def fs_config(r, zone, faulty=False):
    """(fs spec, env) naming ``zone`` through one of the sources discovery knows."""
    k = r.random()
    fs, env = {}, {}
    if k < 0.25:
        txt = zone + r.choice(["\n", "", "  \n", " # set by installer\n", " localhost\n"])
        fs["/etc/timezone"] = ["text", txt]
    elif k < 0.45:
        fs["/etc/localtime"] = ["l", "/usr/share/zoneinfo/" + zone]
        fs["/usr/share/zoneinfo/" + zone] = ["tzif", zone]
    elif k < 0.6:
        fs[r.choice(["/etc/localtime", "/usr/local/etc/localtime"])] = ["tzif", zone]
    elif k < 0.78:
        v = r.choice([zone, ":" + zone])
        if r.random() < 0.25:
            fs["/srv/zones/" + zone] = ["tzif", zone]
            v = r.choice(["", ":"]) + "/srv/zones/" + zone
        env["TZ"] = v
    elif k < 0.9:
        which = r.choice(["/etc/sysconfig/clock", "/etc/conf.d/clock"])
        key = r.choice(["ZONE", "TIMEZONE"])
        val = r.choice([zone, "/usr/share/zoneinfo/" + zone])
        # what such files really contain around the setting: comments, the previous setting
        # commented out, other variables whose name ends in ZONE (openSUSE's DEFAULT_TIMEZONE)
        other = r.choice([z for z in LOCAL_ZONES if z != zone])
        pre = r.choice(["# clock\nUTC=true\n", "", "HWCLOCK=\"-u\"\n", "#%s=\"%s\"\n" % (key, other), "# %s=\"%s\"\n" % (r.choice(["ZONE", "TIMEZONE"]), other),
                        "DEFAULT_TIMEZONE=\"%s\"\n" % other, "## Type: string\n## Default: \"%s\"\nSYSTOHC=\"yes\"\n" % other,
                        "OLD_ZONE=\"%s\"  # ZONE=\"%s\"\n" % (other, other)])
        post = r.choice(["", "", "ARC=false\n", "#%s=\"%s\"\n" % (key, other), "DEFAULT_TIMEZONE=\"%s\"\n" % other])
        ind = r.choice(["", "", "  ", "\t"])
        eq = r.choice(["=", "=", " = "])
        fs[which] = ["text", "%s%s%s%s\"%s\"\n%s" % (pre, ind, key, eq, val, post)]
    else:
        pass   # nothing configured: UTC with a warning
    if faulty:
        g = r.random()
        if g < 0.2:
            fs["/etc/timezone"] = ["text", r.choice(["Foo/Bar\n", "Europe/Pariss\n", "\n", "Mars/Olympus Mons\n"])]
        elif g < 0.35:
            fs["/etc/timezone"] = ["hex", r.choice(["fffe", "c328", "00"])]
        elif g < 0.5:
            fs["/etc/localtime"] = ["tzif_trunc", zone, r.choice([0, 4, 30, 44, 100])]
        elif g < 0.6:
            fs["/etc/timezone"] = ["tzif", zone]      # a TZif file where a name is expected (issue #3)
        elif g < 0.7:
            fs["/etc/localtime"] = ["l", "/nonexistent/" + zone]
        elif g < 0.8:
            env["TZ"] = r.choice(["Nope/Zone", ":Nope/Zone", ":", "/does/not/exist"])
        elif g < 0.9:
            fs["/etc/sysconfig/clock"] = ["text", r.choice(['ZONE="Foo/Bar"\n', 'ZONE="Europe/Paris\n', 'TIMEZONE=""\n'])]
    return fs, env


FAULT_KINDS = ["ENOENT", "EACCES", "EIO", "EMFILE", "short"]
FAULT_PATHS = ["/etc/timezone", "/etc/localtime", "/etc/sysconfig/clock", "/etc/conf.d/clock", "/usr/local/etc/localtime"]


def _valid(name):
    if not name or name.startswith("/") or "\x00" in name:
        return False
    try:
        zoneinfo.ZoneInfo(name)
        return True
    except Exception:
        return False


def _suffix_zone(path):
    parts = list(reversed(path.replace(" ", "_").split("/")))
    acc = []
    while parts:
        acc.insert(0, parts.pop(0))
        cand = "/".join(acc)
        if _valid(cand):
            return cand
    return None


def _resolve(nodes, p, depth=0):
    n = nodes.get(p)
    if n and n[0] == "l" and depth < 8:
        return _resolve(nodes, n[1], depth + 1)
    return p


def _file(nodes, p):
    n = nodes.get(_resolve(nodes, p))
    return n[1] if n and n[0] == "f" else None


def _from_file(data):
    try:
        zoneinfo.ZoneInfo.from_file(io.BytesIO(data))
        return ("file", data)
    except Exception:
        return None


def mentions(nodes, env, short_ns):
    """per configuration source: (zones that source names in this state, may discovery raise on it).
    Precedence-agnostic on purpose: which source wins is not part of the property."""
    out = {}

    def add(src, zones, may_raise=False):
        z0, m0 = out.get(src, ([], False))
        out[src] = (z0 + [z for z in zones if z not in z0], m0 or may_raise)

    for src in ("TZ", "/etc/timezone", "/etc/sysconfig/clock", "/etc/conf.d/clock", "localtime-link",
                "/etc/localtime", "/usr/local/etc/localtime"):
        out[src] = ([], False)
    tz = env.get("TZ")
    if tz:
        v = tz[1:] if tz[0] == ":" else tz
        data = _file(nodes, v) if v else None
        if data is not None:
            z = _from_file(data)
            add("TZ", [z] if z else [], not z)
        elif _valid(v):
            add("TZ", [v])
        if not v:
            add("TZ", [], True)
    data = _file(nodes, "/etc/timezone")
    if data is not None:
        for d in [data] + [data[:n] for n in short_ns]:
            if d[:5] == b"TZif2":
                continue
            try:
                s = d.strip().decode()
            except UnicodeDecodeError:
                add("/etc/timezone", [], True)
                continue
            if " " in s:
                s = s.split(" ", 1)[0]
            if "#" in s:
                s = s.split("#", 1)[0]
            s = s.replace(" ", "_")
            if _valid(s):
                add("/etc/timezone", [s])
            else:
                add("/etc/timezone", [], True)
    for fn in ("/etc/sysconfig/clock", "/etc/conf.d/clock"):
        data = _file(nodes, fn)
        if data is None:
            continue
        for d in [data] + [data[:n] for n in short_ns]:
            try:
                text = d.decode()
            except UnicodeDecodeError:
                add(fn, [], True)
                continue
            for line in text.splitlines(True):
                m = re.match(r'\s*ZONE\s*=\s*"', line) or re.match(r'\s*TIMEZONE\s*=\s*"', line)
                if not m:
                    continue
                rest = line[m.end():]
                if '"' not in rest:
                    add(fn, [], True)
                    continue
                z = _suffix_zone(rest[: rest.index('"')])
                # e.g. ZONE="" -> zoneinfo rejects the empty key with a plain ValueError
                add(fn, [z] if z else [], not z)
    n = nodes.get("/etc/localtime")
    if n and n[0] == "l":
        z = _suffix_zone(_resolve(nodes, "/etc/localtime"))
        if z and _file(nodes, "/etc/localtime") is not None:     # a dangling link is no source ...
            add("localtime-link", [z])
        elif z:
            # ... unless isfile() was answered in another state of the epoch (non-atomic reads)
            out["dangling-link-name"] = ([z], False)
    for fn in ("/etc/localtime", "/usr/local/etc/localtime"):
        data = _file(nodes, fn)
        if data is not None:
            for d in [data] + [data[:n] for n in short_ns]:
                z = _from_file(d)
                add(fn, [z] if z else [], not z)
    return out


def admissible_local(run, rec):
    """(zones the local-zone lookup of this op may legitimately yield when no mock is set, may_raise)"""
    epoch = 0
    for seq, kind in run.barriers:
        if "restart" in kind and seq <= rec["inv"]:
            epoch = seq
    shorts = []
    for a in run.sc["actors"]:
        for op in a["ops"]:
            if op[0] == "nem" and op[1] == "arm" and op[2]["kind"] == "short":
                shorts.append(op[2].get("n", 3))
    states = []
    base = None
    for s in run.fslog:
        if s[1] <= epoch:
            base = s
    if base is not None:
        states.append(base[2])
    for s in run.fslog:
        if s is not base and s[1] > epoch and s[0] < rec["ret"]:
            states.append(s[2])
    zones, may_raise = [], False
    if shorts:
        # a truncated source can always make discovery fall through to its documented default
        zones.append("UTC")
    # Discovery reads its sources one after the other, not atomically: across the states of the
    # epoch each source may have been seen in any of them.  The documented default (UTC) is
    # reachable iff every source was empty in at least one state.
    can_be_empty = {}
    dangling, link_usable_somewhere = [], False
    for nodes, env in states:
        # isfile("/etc/localtime") may be answered on a plain file and islink()/realpath() on the
        # dangling link that replaced it a moment later: the link's name is then what discovery uses
        if _file(nodes, "/etc/localtime") is not None:
            link_usable_somewhere = True
        for src, (z, mr) in mentions(nodes, env, shorts).items():
            if src == "dangling-link-name":
                dangling += z
                continue
            if src == "localtime-link" and z:
                link_usable_somewhere = True
            may_raise |= mr
            can_be_empty[src] = can_be_empty.get(src, False) or not z
            for x in z:
                if x not in zones:
                    zones.append(x)
    if link_usable_somewhere:
        for x in dangling:
            if x not in zones:
                zones.append(x)
    if all(can_be_empty.values()) and "UTC" not in zones:
        zones.append("UTC")
    return zones, may_raise


def extend_candidates(run, rec, op, cands):
    mocks = cands["mock_tz"]
    loc = [m for m in mocks if m is not None]
    relaxed = bool(rec.get("faults"))
    # a configuration write that overlaps the call is itself an environment fault
    # (file deleted between isfile() and open(), content replaced between two reads)
    if any(s[0] > 0 and s[0] < rec["ret"] and s[1] > rec["inv"] for s in run.fslog):
        relaxed = True
    if None in mocks:
        zones, may_raise = admissible_local(run, rec)
        relaxed |= may_raise
        for z in zones:
            if z not in loc:
                loc.append(z)
    cands["mock_tz"] = loc or ["UTC"]
    rec["_local"] = list(cands["mock_tz"])
    # only an op that looks the local zone up may be excused by an environment fault
    relaxed = relaxed and reads_local(op)
    rec["_relaxed"] = relaxed
    return relaxed


def reads_local(op):
    if op[0] == "pcall" and op[1] in ("local", "now", "today", "tomorrow", "yesterday", "local_timezone"):
        return True
    if op[0] == "call" and op[2] in ("is_local", "diff_for_humans", "diff", "age"):
        return True
    return '"local"' in __import__("json").dumps(op)


# ----------------------------------------------------------------------------- generator
def _wall(r, zone):
    """wall-clock fields biased into the gaps/overlaps of ``zone``."""
    trans = tzdb.transitions(zone) if isinstance(zone, str) else ()
    if trans and r.random() < 0.7:
        t, o0, o1 = r.choice(trans)
        lo, hi = sorted((o0, o1))
        # wall times between t+lo and t+hi are skipped (o1>o0) or repeated (o1<o0)
        span = hi - lo
        off = r.choice([0, 1, span // 2, span - 1, span, -1, r.randrange(-span, 2 * span + 1)])
        us = r.choice([0, 0, 1, 999999, r.randrange(10**6)])
        return tzdb.us_to_fields((t + lo + off) * gen_dt.US + us)
    inst = gen_dt.pick_instant(r, zone)
    return tzdb.us_to_fields(inst + int(tzdb.offset_at(zone, inst) * gen_dt.US)) if zone is not None else tzdb.us_to_fields(inst)


def _fault_path(r, fs, env):
    """a path discovery will really open under this configuration (faults on paths nobody
    opens test nothing), sometimes any of the known ones"""
    opened = [p for p, node in fs.items() if node and node[0] != "l" and
              (p in FAULT_PATHS or p == (env.get("TZ", "") or "").lstrip(":"))]
    if opened and r.random() < 0.8:
        return r.choice(opened)
    return r.choice(FAULT_PATHS)


def gen(rp, rw, tier):
    z1 = rw.choice(LOCAL_ZONES)
    z2 = rw.choice(LOCAL_ZONES)
    zm = rw.choice(LOCAL_ZONES + [3600, -12600])
    faulty = rw.random() < 0.5
    fs, env = fs_config(rw, z1, faulty and rw.random() < 0.5)
    world = {"fs": fs, "env": env, "clock": gen_dt.pick_instant(rw, z1)}
    if rw.random() < 0.35:
        world["mock_tz"] = zm
    local_zones = [z for z in (z1, z2, zm) if isinstance(z, str)]
    pool = []
    for _ in range(rp.choice([1, 2, 3])):
        z = rp.choice(local_zones + [gen_dt.pick_zone(rp)])
        s, _, _, _ = gen_dt.dt_value(rp, zone=z, instant=None)
        pool.append(s)
    actors = []
    for c in range(rw.choice([1, 2, 2, 3])):
        ops = []
        for _ in range(rw.choice([1, 2, 3, 4, 5])):
            x = rp.random()
            zl = rp.choice(local_zones)
            if x < 0.22:
                ops.append(["pcall", "local", _wall(rp, zl)])
            elif x < 0.32:
                kw = {"tz": "local"}
                if rp.random() < 0.5:
                    kw["fold"] = rp.randrange(2)
                if rp.random() < 0.25:
                    kw["raise_on_unknown_times"] = True
                ops.append(["pcall", "datetime", _wall(rp, zl), kw])
            elif x < 0.38:
                ops.append(["pcall", "parse", ["%04d-%02d-%02d %02d:%02d:%02d.%06d" % tuple(_wall(rp, zl))], {"tz": "local"}])
            elif x < 0.43:
                ops.append(["pcall", "instance", [{"$": "native", "f": _wall(rp, zl), "tz": None, "fold": rp.randrange(2)}], {"tz": "local"}])
            elif x < 0.50:
                ops.append(r_choice(rp, [["pcall", "local_timezone"], ["pcall", "now"], ["pcall", "now", ["local"]], ["pcall", "today"],
                                         ["call", {"$": "p", "i": rp.randrange(len(pool))}, "is_local"]]))
            elif x < 0.56:
                ops.append(["call", {"$": "p", "i": rp.randrange(len(pool))}, "set", [], {"tz": "local"}])
            else:
                # explicit zone: the DST-rule model sees every construction path
                z = rp.choice(local_zones + [gen_dt.pick_zone(rp, midnight_bias=0.3)])
                w = _wall(rp, z)
                y = rp.random()
                fold = rp.randrange(2)
                rz = rp.random() < 0.3
                if y < 0.35:
                    kw = {"tz": gen_dt.tz_spec(z)}
                    if rp.random() < 0.7:
                        kw["fold"] = fold
                    if rz:
                        kw["raise_on_unknown_times"] = True
                    ops.append(["pcall", "datetime", w, kw])
                elif y < 0.5 and rp.random() < 0.3:
                    # built in UTC with the factory, then re-zoned by wall clock
                    T = {"$": "dt", "f": w, "tz": "UTC", "fold": rp.choice([1, 1, 0])}
                    if rp.random() < 0.5:
                        ops.append(["call", T, "set", [], {"tz": gen_dt.tz_spec(z)}])
                    else:
                        ops.append(["call", T, "replace", [], {"tzinfo": gen_dt.tz_spec(z)}])
                elif y < 0.5:
                    T = {"$": "dt", "f": _wall(rp, z), "tz": z, "fold": fold}
                    m = rp.choice(["set", "on", "at", "replace"])
                    if m == "set":
                        ops.append(["call", T, "set", [], dict(zip(["year", "month", "day", "hour", "minute", "second", "microsecond"], w))])
                    elif m == "on":
                        ops.append(["call", T, "on", w[:3]])
                    elif m == "at":
                        ops.append(["call", T, "at", w[3:]])
                    else:
                        kw = dict(zip(["year", "month", "day", "hour", "minute", "second", "microsecond"], w))
                        if rp.random() < 0.5:
                            kw["fold"] = rp.randrange(2)
                        ops.append(["call", T, "replace", [], kw])
                elif y < 0.62:
                    ops.append(["pcall", "parse", ["%04d-%02d-%02dT%02d:%02d:%02d.%06d" % tuple(w)], {"tz": gen_dt.tz_spec(z)}])
                elif y < 0.8:
                    kw = {"raise_on_unknown_times": True} if rz else {}
                    ops.append(["call", gen_dt.tz_spec(z), "convert", [{"$": "native", "f": w, "tz": None, "fold": fold}], kw])
                elif y < 0.9:
                    ops.append(["call", gen_dt.tz_spec(z), "datetime", w])
                else:
                    ops.append(["pcall", "instance", [{"$": "native", "f": w, "tz": None, "fold": fold}], {"tz": gen_dt.tz_spec(z)}])
        actors.append({"name": "T%d" % (c + 1), "ops": ops})
    nem = []
    if rw.random() < 0.75:
        for _ in range(rw.randint(1, 4)):
            k = rw.random()
            if k < 0.3:
                mz = rw.choice([None, None, zm, z2])
                if mz is not None and rw.random() < 0.3:
                    # `with test_local_timezone(mz):` held open by the nemesis: two writes
                    nem.append(["nem", "mock_ctx_enter", mz])
                    nem.append(["nem", "mock_ctx_exit"])
                else:
                    nem.append(["nem", "mock_tz", mz])
            elif k < 0.45:
                fs2, env2 = fs_config(rw, z2, faulty and rw.random() < 0.4)
                for path, node in fs2.items():
                    nem.append(["nem", "fs_put", path, node])
                for kk, vv in env2.items():
                    nem.append(["nem", "env", kk, vv])
            elif k < 0.55:
                nem.append(["nem", "env", "TZ", rw.choice([None, z2, ":" + z2, "Nope/Zone"] if faulty else [None, z2, ":" + z2])])
            elif k < 0.62:
                nem.append(["nem", "fs_put", rw.choice(FAULT_PATHS), None])
            elif k < 0.9 and faulty:
                f = {"path": _fault_path(rw, fs, env), "call": "open", "kind": rw.choice(FAULT_KINDS)}
                if f["kind"] == "short":
                    f["n"] = rw.choice([0, 3, 5, 9, 12, 40])
                nem.append(["nem", "arm", f])
            else:
                nem.append(["nem", "clock", world["clock"] + rw.randrange(-10**13, 10**13)])
    if faulty and rw.random() < 0.5:
        # arm before anybody runs so that the very first discovery meets the fault
        f = {"path": _fault_path(rw, fs, env), "call": "open", "kind": rw.choice(FAULT_KINDS)}
        if f["kind"] == "short":
            f["n"] = rw.choice([0, 3, 5, 9, 12, 40])
        nem.insert(0, ["nem", "arm", f])
    sc = {"world": world, "pool": pool, "actors": actors, "step_cap": 30000, "observe_pool": True, "faulty": faulty}
    kind = rw.random()
    if nem:
        actors.append({"name": "N", "nemesis": True, "ops": nem})
    if kind < 0.45:
        bk = rw.choice(["restart", "heal", "restart+heal", "heal", "restart+heal"]) if faulty else rw.choice(["restart", "restart", "plain"])
        for a in actors:
            pos = rw.randint(0, len(a["ops"]))
            a["ops"].insert(pos, ["barrier", bk])
            common._shift_refs(a["ops"], pos)
        if "heal" in bk:
            # bounded liveness: once faults have stopped, one more lookup per client must succeed
            for a in actors:
                if not a.get("nemesis"):
                    a["ops"].append(["pcall", "local", _wall(rp, z1)])
    sc["horizon"] = sum(len(a["ops"]) for a in actors) * 40
    return sc


def r_choice(r, xs):
    return xs[r.randrange(len(xs))]


# ------------------------------------------------------------------------------- L2
def rule(zone, w, fold, raise_flag):
    """reference DST rule: ("ok", fields, offset) | ("exc", name) | None (no statement)"""
    if isinstance(zone, int):
        return ("ok", list(w), zone)
    try:
        ts = tzdb.wall_to_instants(zone, w)
        if len(ts) == 1:
            return ("ok", list(w), tzdb.render(zone, ts[0])[1])
        if len(ts) == 2:
            if raise_flag:
                return ("exc", "AmbiguousTime")
            t = ts[1] if fold else ts[0]
            return ("ok", list(w), tzdb.render(zone, t)[1])
        if raise_flag:
            return ("exc", "NonExistingTime")
        o0, o1 = tzdb.fold_offsets(zone, w)
        gap = o1 - o0
        if gap <= 0:
            return None
        nus = tzdb.naive_us(w) + int((gap if fold else -gap) * gen_dt.US)
        nf = tzdb.us_to_fields(nus)
        off = o1 if fold else o0
        # every value returned must be a valid local time that survives a round trip through UTC
        inst = nus - int(off * gen_dt.US)
        if tzdb.render(zone, inst)[:2] != (nf, off):
            return None
        return ("ok", nf, off)
    except (OverflowError, ValueError):
        return None


def _zone_from_spec(z):
    if isinstance(z, dict) and z.get("$") == "tz":
        return z["k"]
    return z


def _construction(run, a, op):
    """(zone | "local", wall fields, fold, raise_flag) for ops the DST-rule statement covers."""
    f = op[0]
    if f == "pcall":
        name, args = op[1], (op[2] if len(op) > 2 else [])
        kw = op[3] if len(op) > 3 else {}
        if name == "local":
            return "local", (list(args) + [0] * 7)[:7], 1, False
        if name == "datetime":
            return _zone_from_spec(kw.get("tz", "UTC")), (list(args) + [0] * 7)[:7], kw.get("fold", 1), bool(kw.get("raise_on_unknown_times"))
        if name == "parse" and "tz" in kw:
            m = re.match(r"(\d{4})-(\d\d)-(\d\d)[T ](\d\d):(\d\d):(\d\d)\.(\d{6})$", args[0])
            if m:
                return _zone_from_spec(kw["tz"]), [int(x) for x in m.groups()], 1, False
        if name == "instance" and isinstance(args[0], dict) and args[0].get("$") == "native" and args[0].get("tz") is None:
            return _zone_from_spec(kw.get("tz", "UTC")), list(args[0]["f"]), args[0].get("fold", 0), False
        return None
    if f == "call":
        tgt, m = op[1], op[2]
        args = op[3] if len(op) > 3 else []
        kw = op[4] if len(op) > 4 else {}
        if isinstance(tgt, dict) and tgt.get("$") == "tz":
            if m == "convert" and args and args[0].get("$") == "native":
                return tgt["k"], list(args[0]["f"]), args[0].get("fold", 0), bool(kw.get("raise_on_unknown_times"))
            if m == "datetime":
                return tgt["k"], (list(args) + [0] * 7)[:7], 1, False
        if isinstance(tgt, dict) and tgt.get("$") == "dt" and m in ("set", "on", "at", "replace"):
            # the instance's own fields, overridden; the fold passed on is the one the instance carries
            base = rule(tgt["tz"], tgt["f"], tgt.get("fold", 1), False)
            if base is None or base[0] != "ok":
                return None
            w = list(base[1])
            names = ["year", "month", "day", "hour", "minute", "second", "microsecond"]
            if m == "on":
                w[:3] = args[:3]
            elif m == "at":
                w[3:] = (list(args) + [0, 0, 0])[:4]
            else:
                for k, v in kw.items():
                    if k in names:
                        w[names.index(k)] = v
            zone = tgt["tz"]
            if m == "set" and "tz" in kw:
                zone = _zone_from_spec(kw["tz"])
            if m == "replace" and "tzinfo" in kw:
                zone = _zone_from_spec(kw["tzinfo"])
            if m == "replace" and "fold" in kw:
                return zone, w, kw["fold"], False
            # the fold passed on is the one the instance carries: the documented one (the fold
            # given to the constructor, default 1) when the instance's own wall time exists once
            try:
                own_unique = isinstance(tgt["tz"], int) or tzdb.classify(tgt["tz"], tgt["f"]) == "unique"
            except Exception:
                own_unique = False
            if own_unique:
                return zone, w, tgt.get("fold", 1), False
            return ("carried", zone), w, None, False
    return None


def l2_check(run):
    sc = run.sc
    viols = []
    n = 0
    for a in sc["actors"]:
        if a.get("nemesis"):
            continue
        for i, op in enumerate(a["ops"]):
            rec = run.recs.get((a["name"], i))
            if rec is None or op[0] in ("nem", "barrier"):
                continue
            robs = rec["obs"]
            # every local-zone construction returns an aware value (or raises)
            c = _construction(run, a, op)
            if c is None:
                continue
            zone, w, fold, rz = c
            folds = [fold]
            if isinstance(zone, tuple) and zone[0] == "carried":
                zone = zone[1]
                folds = [0, 1]     # hidden fold of the instance: either is legitimate provenance
            zones = rec.get("_local", []) if zone == "local" else [zone]
            if zone == "local" and (rec.get("faults") or not zones):
                continue
            answers = []
            for z in zones:
                for fo in folds:
                    ans = rule(z, w, fo, rz)
                    answers.append(ans)
            if None in answers or not answers:
                continue
            n += 1
            got = None
            if isinstance(robs, list) and robs:
                if robs[0] == "DateTime":
                    got = ("ok", robs[1], robs[3])
                elif robs[0] == "native-datetime":
                    got = ("ok", robs[1], robs[3])
                elif robs[0] == "EXC":
                    got = ("exc", robs[1])
            if got not in answers:
                if zone == "local" and isinstance(robs, list) and robs and robs[0] == "EXC" and rec.get("_relaxed"):
                    continue
                cls = "?"
                try:
                    cls = tzdb.classify(zones[0], w) if not isinstance(zones[0], int) else "unique"
                except Exception:
                    pass
                viols.append({"oracle": "L2.dst_rule", "label": common.label(op), "actor": a["name"], "i": i, "op": op,
                              "sim_obs": robs,
                              "detail": {"zone": [z if not isinstance(z, tuple) else "file" for z in zones], "wall": w, "fold": folds,
                                         "raise_on_unknown_times": rz, "class": cls, "model": answers[:4]},
                              "sig_extra": [cls],
                              "facts": {"class": cls, "local": zone == "local",
                                        "aware": bool(isinstance(robs, list) and len(robs) > 4 and robs[4] is not None),
                                        "raises": robs[1] if isinstance(robs, list) and robs and robs[0] == "EXC" else None}})
    return viols, {"l2_evals": n}


def probes(run):
    out = {"discovery_ran_under_armed_fault": len(run.fired), "preempted_in_get_local_timezone": 0,
           "mock_written_during_local_op": 0, "healed_then_looked_up": 0}
    for (fn, _l), k in run.sched.sites.items():
        if fn in ("get_local_timezone", "_get_unix_timezone", "_tz_from_env", "_get_system_timezone"):
            out["preempted_in_get_local_timezone"] += k
    writes = [w for w in run.regw if w[2] == "mock_tz" and w[0] > 0]
    for a in run.sc["actors"]:
        for i, op in enumerate(a["ops"]):
            rec = run.recs.get((a["name"], i))
            if rec and op[0] == "pcall" and op[1] in ("local", "now", "today", "local_timezone"):
                if any(w[0] < rec["ret"] and w[1] > rec["inv"] for w in writes):
                    out["mock_written_during_local_op"] += 1
    if any("heal" in k for _, k in run.barriers):
        out["healed_then_looked_up"] += 1
    return out


def simplify(sc):
    yield from common.simplify_generic(sc)
