"""Reference view of the tz database through the standard library only (never through pendulum).

Zone keys: "Area/City" strings or int fixed offsets in seconds.
Instants are integer microseconds since the Unix epoch.
"""
from __future__ import annotations

import datetime as _dt
import functools
import zoneinfo

# Only the tzdata package (a declared dependency of pendulum) answers zone lookups: the
# machine's own /usr/share/zoneinfo must not leak into the simulation (it may be a different
# tz release, and it contains pseudo-zones such as "localtime" that point back at /etc).
zoneinfo.reset_tzpath(to=[])

EPOCH = _dt.datetime(1970, 1, 1, tzinfo=_dt.timezone.utc)
US = 10**6


@functools.lru_cache(maxsize=None)
def tzinfo(key):
    if isinstance(key, int):
        return _dt.timezone(_dt.timedelta(seconds=key))
    if isinstance(key, tuple) and key[0] == "file":
        import io

        return zoneinfo.ZoneInfo.from_file(io.BytesIO(key[1]))
    return zoneinfo.ZoneInfo(key)


def to_us(dt_aware) -> int:
    d = dt_aware - EPOCH
    return (d.days * 86400 + d.seconds) * US + d.microseconds


def from_us(us: int, key):
    return (EPOCH + _dt.timedelta(microseconds=us)).astimezone(tzinfo(key))


def render(key, us: int):
    """-> (fields[7], offset seconds (float if sub-second), fold)"""
    d = from_us(us, key)
    o = d.utcoffset()
    off = o.days * 86400 + o.seconds + (o.microseconds / 1e6 if o.microseconds else 0)
    return [d.year, d.month, d.day, d.hour, d.minute, d.second, d.microsecond], off, d.fold


def offset_at(key, us: int):
    return render(key, us)[1]


def wall_to_instants(key, f):
    """all instants whose local rendering is the wall time f (0, 1 or 2), ascending."""
    tz = tzinfo(key)
    out = []
    for fold in (0, 1):
        d = _dt.datetime(*f, tzinfo=tz, fold=fold)
        off = d.utcoffset()
        naive_us = to_us(_dt.datetime(*f, tzinfo=_dt.timezone.utc))
        t = naive_us - ((off.days * 86400 + off.seconds) * US + off.microseconds)
        if render(key, t)[0] == list(f) and t not in out:
            out.append(t)
    return sorted(out)


def fold_offsets(key, f):
    """(offset with fold=0, offset with fold=1) in seconds for wall time f (PEP 495)."""
    tz = tzinfo(key)
    res = []
    for fold in (0, 1):
        o = _dt.datetime(*f, tzinfo=tz, fold=fold).utcoffset()
        res.append(o.days * 86400 + o.seconds + (o.microseconds / 1e6 if o.microseconds else 0))
    return tuple(res)


def classify(key, f):
    """'unique' | 'repeated' | 'skipped' for wall time f in zone key."""
    n = len(wall_to_instants(key, f))
    return ("skipped", "unique", "repeated")[n]


def classify_fold(key, f):
    """classify() plus 'phantom': exactly one instant renders as f, yet the zone's utcoffset() depends
    on fold there (PEP 495 would call the wall time ambiguous).  A data artefact - in the whole
    database only America/Nuuk (= America/Godthab) 2023-10-28 23:00-24:00, where the compiled rules
    contain a zero-length DST period - but a value carrying fold=0 is resolved to an offset that does
    not render back to its wall time."""
    c = classify(key, f)
    if c == "unique" and not isinstance(key, int):
        o = fold_offsets(key, f)
        if o[0] != o[1]:
            return "phantom"
    return c


def year_start_us(y):
    return to_us(_dt.datetime(y, 1, 1, tzinfo=_dt.timezone.utc))


def naive_us(f):
    return to_us(_dt.datetime(*f, tzinfo=_dt.timezone.utc))


def us_to_fields(us):
    d = EPOCH + _dt.timedelta(microseconds=us)
    return [d.year, d.month, d.day, d.hour, d.minute, d.second, d.microsecond]


def first_instant_at_or_after_wall(key, f):
    """the first instant whose local rendering is >= wall time f *going forward in time
    from just before f* : f itself if it exists (earlier occurrence), else the end of the gap."""
    ts = wall_to_instants(key, f)
    if ts:
        return ts[0]
    o0, o1 = fold_offsets(key, f)     # before / after the gap
    # instant of the transition: wall f read with the pre-gap offset lies at/after it;
    # the gap starts at wall g0 where g0 - o0 == T.  T = (f - o0) - (f - g0) but f - g0 is
    # unknown; use: T is the unique instant in [f - o1_shift ...] found by bisection.
    lo = naive_us(f) - int(max(o0, o1) * US) - 86400 * US
    hi = naive_us(f) - int(min(o0, o1) * US) + 86400 * US
    # find smallest t in (lo, hi] with render(t) >= f
    fl = list(f)
    while hi - lo > 1:
        mid = (lo + hi) // 2
        if render(key, mid)[0] >= fl:
            hi = mid
        else:
            lo = mid
    return hi


def last_instant_at_or_before_wall(key, f):
    """the last instant whose local rendering is <= wall time f: f itself (later occurrence)
    if it exists, else the microsecond before the gap."""
    ts = wall_to_instants(key, f)
    if ts:
        return ts[-1]
    return first_instant_at_or_after_wall(key, f) - 1


@functools.lru_cache(maxsize=None)
def transitions(key, y0=1970, y1=2040):
    """[(instant_s, offset_before, offset_after)] for a named zone, found by scanning with zoneinfo."""
    if isinstance(key, int):
        return ()
    tz = tzinfo(key)
    out = []
    t = int((_dt.datetime(y0, 1, 1, tzinfo=_dt.timezone.utc) - EPOCH).total_seconds())
    end = int((_dt.datetime(y1, 1, 1, tzinfo=_dt.timezone.utc) - EPOCH).total_seconds())
    step = 86400 * 7

    def off(s):
        o = (EPOCH + _dt.timedelta(seconds=s)).astimezone(tz).utcoffset()
        return o.days * 86400 + o.seconds

    prev = off(t)
    while t < end:
        nxt = t + step
        cur = off(nxt)
        if cur != prev:
            lo, hi = t, nxt
            # there may be two transitions within a week in rare cases; bisect to the first change
            while hi - lo > 1:
                mid = (lo + hi) // 2
                if off(mid) != prev:
                    hi = mid
                else:
                    lo = mid
            a = off(hi)
            out.append((hi, prev, a))
            prev = a
            t = hi
            continue
        t = nxt
    return tuple(out)
