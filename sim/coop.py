"""Cooperative locks for code under test.

The baton-passing scheduler lets exactly one actor thread run.  If code under test took a real
`threading.Lock` and was pre-empted while holding it, the next actor to want the lock would
block inside the OS *while holding the baton* - the simulator would stall (a harness error, not a
verdict) on code that is perfectly correct.  pendulum has no locks today, but "make the cache
thread-safe" is exactly the kind of edit a maintainer might make, so locks created *by pendulum
code* are wrapped: a contended acquire by an actor thread hands the baton to another runnable
actor and retries, which is what a blocked thread means for a scheduler.  Locks created by
anything else (the standard library, this harness) are real locks.

Must be imported before pendulum (sim/__init__.py does it).
"""
from __future__ import annotations

import os
import sys
import threading

_REAL_LOCK = threading.Lock
_REAL_RLOCK = threading.RLock
_SRC = os.path.join(os.path.realpath(os.environ.get("VERIF_REPO", "/repo")), "src", "pendulum") + os.sep

ACTORS: dict = {}        # thread ident -> (scheduler, actor); maintained by sim.sched
STATS = {"coop_locks_created": 0, "contended_acquires": 0}


class CoopLock:
    def __init__(self, real):
        self._l = real

    def acquire(self, blocking=True, timeout=-1):
        if self._l.acquire(False):
            return True
        if not blocking:
            return False
        ent = ACTORS.get(threading.get_ident())
        if ent is None:
            return self._l.acquire(blocking, timeout)
        sched, actor = ent
        STATS["contended_acquires"] += 1
        while not self._l.acquire(False):
            sched.blocked_yield(actor)
        return True

    def release(self):
        self._l.release()

    def locked(self):
        return self._l.locked() if hasattr(self._l, "locked") else False

    __enter__ = acquire

    def __exit__(self, *a):
        self._l.release()

    def __getattr__(self, name):          # _is_owned, _release_save ... (Condition support)
        return getattr(self._l, name)


def _from_sut():
    f = sys._getframe(2)
    return f.f_code.co_filename.startswith(_SRC)


def _lock_factory():
    if _from_sut():
        STATS["coop_locks_created"] += 1
        return CoopLock(_REAL_LOCK())
    return _REAL_LOCK()


def _rlock_factory():
    if _from_sut():
        STATS["coop_locks_created"] += 1
        return CoopLock(_REAL_RLOCK())
    return _REAL_RLOCK()


def install():
    if threading.Lock is not _lock_factory:
        threading.Lock = _lock_factory
        threading.RLock = _rlock_factory


install()
