"""Shrink a failing scenario while the same violation class persists.

Order: ops / nemesis events / actors / barriers (each cut re-searches schedules, because
cutting code shifts per-actor yield-point numbers), then delta-debugging of the context
switches of the explicit schedule (fewest pre-emptions), then the property module's
argument simplifications.  Bounded by ``budget`` scenario executions.
"""
from __future__ import annotations

import copy
import json

from .engine import decide, signature


class Budget:
    def __init__(self, n):
        self.left = n

    def take(self):
        self.left -= 1
        return self.left >= 0


_COLD = None


def _fails(sc, prop, sig, budget, full_digest=False):
    if not budget.take():
        return None
    run, viols, _ = decide(sc, prop, full_digest=full_digest, cold=_COLD if sc.get("cold") else None)
    for v in viols:
        if signature(v) == sig:
            return run, v
    return None


SEARCH = (
    [{"kind": "random", "p": p} for p in (0.3, 0.1, 0.6)]
    + [{"kind": "pct", "d": d, "horizon": h} for d in (1, 2) for h in (30, 150)]
    + [{"kind": "sticky", "p": 0.05, "p_store": 0.7}, {"kind": "reads", "p": 0.02, "p_read": 0.2, "to_nemesis": 0.7},
       {"kind": "reads1", "p": 0.01, "reads_horizon": 8}, {"kind": "reads1", "p": 0.01, "reads_horizon": 24}]
)


def _search(sc, prop, sig, budget, tries=48):
    """find some schedule under which the (reduced) program still fails."""
    base = copy.deepcopy(sc)
    # 1) the old explicit schedule may still work
    if base["strategy"]["kind"] == "explicit":
        r = _fails(base, prop, sig, budget)
        if r:
            return _with_explicit(base, r[0])
    # 2) no pre-emption at all (ambient-state bugs)
    t = copy.deepcopy(base)
    t["strategy"] = {"kind": "none"}
    r = _fails(t, prop, sig, budget)
    if r:
        return _with_explicit(t, r[0])
    for n in range(tries):
        t = copy.deepcopy(base)
        t["strategy"] = dict(SEARCH[n % len(SEARCH)])
        t["sched_seed"] = 7919 * n + 13
        r = _fails(t, prop, sig, budget)
        if r is None and budget.left < 0:
            return None
        if r:
            return _with_explicit(t, r[0])
    return None


def _with_explicit(sc, run):
    out = copy.deepcopy(sc)
    out["strategy"] = run.explicit
    return out


def _refs(x, acc):
    if isinstance(x, dict):
        if x.get("$") == "r":
            acc.add(x["i"])
        for v in x.values():
            _refs(v, acc)
    elif isinstance(x, list):
        for v in x:
            _refs(v, acc)


def _drop_op(actor, j):
    """remove op j from an actor, renumbering result refs; None if something depends on it."""
    ops = actor["ops"]
    for later in ops[j + 1:]:
        acc = set()
        _refs(later, acc)
        if j in acc:
            return None

    def renum(x):
        if isinstance(x, dict):
            if x.get("$") == "r" and x["i"] > j:
                return {"$": "r", "i": x["i"] - 1}
            return {k: renum(v) for k, v in x.items()}
        if isinstance(x, list):
            return [renum(v) for v in x]
        return x

    new = copy.deepcopy(actor)
    new["ops"] = [renum(o) for k, o in enumerate(ops) if k != j]
    return new


def _ddmin_switches(sc, prop, sig, budget):
    sw = list(sc["strategy"]["switches"])
    n = 2
    while len(sw) >= 1 and budget.left > 0:
        chunk = max(1, len(sw) // n)
        reduced = False
        for start in range(0, len(sw), chunk):
            cand = sw[:start] + sw[start + chunk:]
            t = copy.deepcopy(sc)
            t["strategy"]["switches"] = cand
            r = _fails(t, prop, sig, budget)
            if r:
                # adopt the schedule actually executed (drops ineffective entries)
                sc = _with_explicit(t, r[0])
                sw = list(sc["strategy"]["switches"])
                n = max(n - 1, 2)
                reduced = True
                break
        if not reduced:
            if chunk == 1:
                break
            n = min(len(sw), n * 2)
    return sc


def minimize(sc, prop, sig, budget_n=1500, cold=None):
    """sc must fail with ``sig`` (any strategy). Returns (minimised scenario with explicit
    schedule, violation record, executions used) or None if it cannot be reproduced."""
    global _COLD
    _COLD = cold
    budget = Budget(budget_n)
    cur = _search(sc, prop, sig, budget, tries=8)
    if cur is None:
        return None
    changed = True
    while changed and budget.left > 0:
        changed = False
        # whole actors
        for ai in range(len(cur["actors"]) - 1, -1, -1):
            if len(cur["actors"]) <= 1:
                break
            t = copy.deepcopy(cur)
            del t["actors"][ai]
            t["strategy"] = _strip_actor(cur["strategy"], cur["actors"][ai]["name"])
            r = _search(t, prop, sig, budget, tries=24)
            if r:
                cur = r
                changed = True
        # barriers (the j-th barrier of every actor together)
        nb = min((sum(1 for o in a["ops"] if o[0] == "barrier") for a in cur["actors"]), default=0)
        for b in range(nb - 1, -1, -1):
            t = copy.deepcopy(cur)
            for a in t["actors"]:
                seen = -1
                for j, o in enumerate(a["ops"]):
                    if o[0] == "barrier":
                        seen += 1
                        if seen == b:
                            na = _drop_op(a, j)
                            if na is not None:
                                a["ops"] = na["ops"]
                            break
            r = _search(t, prop, sig, budget, tries=24)
            if r:
                cur = r
                changed = True
        # single ops
        for ai in range(len(cur["actors"])):
            j = len(cur["actors"][ai]["ops"]) - 1
            while j >= 0 and budget.left > 0:
                a = cur["actors"][ai]
                if j >= len(a["ops"]):
                    j = len(a["ops"]) - 1
                    continue
                if a["ops"][j][0] == "barrier":
                    j -= 1
                    continue
                na = _drop_op(a, j)
                if na is not None:
                    t = copy.deepcopy(cur)
                    t["actors"][ai] = na
                    r = _search(t, prop, sig, budget, tries=24)
                    if r:
                        cur = r
                        changed = True
                j -= 1
        cur["actors"] = [a for a in cur["actors"]] or cur["actors"]
    # empty actors are noise
    if any(not a["ops"] for a in cur["actors"]) and len(cur["actors"]) > 1:
        t = copy.deepcopy(cur)
        t["actors"] = [a for a in t["actors"] if a["ops"]]
        r = _search(t, prop, sig, budget, tries=24)
        if r:
            cur = r
    if cur["strategy"]["kind"] == "explicit":
        cur = _ddmin_switches(cur, prop, sig, budget)
    # argument simplification offered by the property module
    if hasattr(prop, "simplify"):
        progress = True
        while progress and budget.left > 0:
            progress = False
            for t in prop.simplify(cur):
                r = _search(t, prop, sig, budget, tries=12)
                if r:
                    cur = r
                    progress = True
                    break
        if cur["strategy"]["kind"] == "explicit":
            cur = _ddmin_switches(cur, prop, sig, budget)
    final = _fails(cur, prop, sig, Budget(1), full_digest=True)
    if not final:
        return None
    run, v = final
    return cur, v, run, budget_n - max(budget.left, 0)


def _strip_actor(strategy, name):
    if strategy.get("kind") != "explicit":
        return strategy
    s = copy.deepcopy(strategy)
    s["switches"] = [x for x in s["switches"] if x[0] != name and x[2] != name]
    s["fin"] = {k: v for k, v in s.get("fin", {}).items() if v != name and not k.endswith(":" + name)}
    if s.get("first") == name:
        s["first"] = None
    return s


def dumps(x):
    return json.dumps(x, indent=1, sort_keys=True, default=str)
