"""Literal (JSON) language for values and operations on the public API.

value spec  : plain JSON, or a dict with "$":
   {"$":"p","i":n}                     shared pool value n
   {"$":"r","i":n}                     result of this client's op n
   {"$":"dt","f":[y,m,d,H,M,S,us],"tz":key|null|"local","fold":1,"raise":false}
   {"$":"naive","f":[...],"fold":0}
   {"$":"dt_raw","f":[...],"tz":key|offset,"fold":0}   pendulum.DateTime(..., tzinfo=<foreign tzinfo>)
   {"$":"dt_ctor","f":[...],"tz":key|offset,"fold":0}  pendulum.DateTime(..., tzinfo=<pendulum zone>), not normalised
   {"$":"date","f":[y,m,d]}   {"$":"time","f":[h,m,s,us]}
   {"$":"dur","kw":{...}}     {"$":"absdur","kw":{...}}
   {"$":"iv","a":spec,"b":spec,"abs":false}        pendulum.interval(a,b,abs)
   {"$":"sub","a":spec,"b":spec}                   a - b
   {"$":"tz","k":key}         key: "Europe/Paris" | int seconds (FixedTimezone via pendulum.timezone)
   {"$":"fixedtz","o":sec,"n":name|null}           FixedTimezone(o,n) (fresh object)
   {"$":"ntz","kind":"zoneinfo|pytz|dateutil|timezone","k":key}   foreign tzinfo
   {"$":"native","f":[...],"tz":ntz-spec|null,"fold":0}          native datetime
   {"$":"pytz_loc","f":[...],"k":name,"is_dst":bool}
   {"$":"td","d":0,"s":0,"us":0}
   {"$":"wd","v":n}           pendulum.WeekDay(n)
   {"$":"call","o":spec,"m":"meth","a":[...],"kw":{...}}        nested call (atomic w.r.t. op numbering)
   {"$":"tuple","v":[...]}
   {"$":"parse","s":"...","kw":{...}}                           pendulum.parse
   {"$":"pcall","n":"name","a":[...],"kw":{...}}                pendulum.<name>(...)

op : [fname, ...args]
   ["get", obj, attr]            ["call", obj, meth, args, kwargs]
   ["pcall", name, args, kwargs] ["bin", opname, a, b]    ["un", opname, a]
   ["multi", obj, [attr,...]]    ["obs", obj]
   ["copy", obj] ["deepcopy", obj] ["pickle", obj, proto]
"""
from __future__ import annotations

import copy
import datetime as _dt
import operator
import pickle
import zoneinfo

import pendulum
from pendulum.tz.timezone import FixedTimezone


class Skip(Exception):
    """an input of the op is the exception result of an earlier op"""


def _zone(key):
    if key is None:
        return None
    if key == "local":
        return "local"
    if isinstance(key, int):
        return pendulum.timezone(key)
    if isinstance(key, float):
        return key
    from .world import World     # named zone: the lookup is part of the replayed zone-cache history

    return World.zone(key)


def _ntz(spec):
    if spec is None:
        return None
    kind, k = spec["kind"], spec["k"]
    if kind == "zoneinfo":
        return zoneinfo.ZoneInfo(k)
    if kind == "pytz":
        import pytz

        return pytz.timezone(k) if isinstance(k, str) else pytz.FixedOffset(k // 60)
    if kind == "dateutil":
        from dateutil import tz as dtz

        return dtz.gettz(k) if isinstance(k, str) else dtz.tzoffset(None, k)
    if kind == "timezone":
        return _dt.timezone(_dt.timedelta(seconds=k)) if k else _dt.timezone.utc
    raise ValueError(spec)


class Env:
    __slots__ = ("pool", "results")

    def __init__(self, pool, results):
        self.pool = pool
        self.results = results


def build(spec, env: Env | None = None):
    if isinstance(spec, list):
        return [build(x, env) for x in spec]
    if not isinstance(spec, dict):
        return spec
    t = spec.get("$")
    if t is None:
        return {k: build(v, env) for k, v in spec.items()}
    if t == "p":
        return env.pool[spec["i"]]
    if t == "r":
        v = env.results[spec["i"]]
        if isinstance(v, BaseException) or v is Skip:
            raise Skip()
        return v
    if t == "dt":
        kw = {}
        if spec.get("raise"):
            kw["raise_on_unknown_times"] = True
        return pendulum.datetime(*spec["f"], tz=_zone(spec.get("tz", "UTC")), fold=spec.get("fold", 1), **kw)
    if t == "dt_filezone":
        import io

        from pendulum.tz.timezone import Timezone

        from .world import tzif_bytes

        tz = Timezone.from_file(io.BytesIO(tzif_bytes(spec["zone"])))
        return pendulum.datetime(*spec["f"], tz=tz, fold=spec.get("fold", 1))
    if t == "dt_ctor":
        # the class constructor with a pendulum zone: the fields are taken as given, *not* normalised
        # (a wall time inside a gap, fold=1 on a fixed offset) - such values exist, e.g. after unpickling
        return pendulum.DateTime(*spec["f"], tzinfo=_zone(spec["tz"]), fold=spec.get("fold", 0))
    if t == "dt_raw":
        # a DateTime straight from the inherited constructor: its tzinfo is the *foreign* object
        # (zoneinfo.ZoneInfo / datetime.timezone), not a pendulum zone
        z = spec["tz"]
        tzi = zoneinfo.ZoneInfo(z) if isinstance(z, str) else _dt.timezone(_dt.timedelta(seconds=z))
        return pendulum.DateTime(*spec["f"], tzinfo=tzi, fold=spec.get("fold", 0))
    if t == "naive":
        return pendulum.naive(*spec["f"], fold=spec.get("fold", 1))
    if t == "date":
        return pendulum.date(*spec["f"])
    if t == "time":
        return pendulum.time(*spec["f"])
    if t == "dur":
        return pendulum.duration(**spec["kw"])
    if t == "absdur":
        from pendulum.duration import AbsoluteDuration

        return AbsoluteDuration(**spec["kw"])
    if t == "iv":
        return pendulum.interval(build(spec["a"], env), build(spec["b"], env), spec.get("abs", False))
    if t == "sub":
        return build(spec["a"], env) - build(spec["b"], env)
    if t == "tz":
        return _zone(spec["k"])
    if t == "fixedtz":
        return FixedTimezone(spec["o"], spec.get("n"))
    if t == "ntz":
        return _ntz(spec)
    if t == "native":
        return _dt.datetime(*spec["f"], tzinfo=_ntz(spec.get("tz")), fold=spec.get("fold", 0))
    if t == "pytz_loc":
        import pytz

        return pytz.timezone(spec["k"]).localize(_dt.datetime(*spec["f"]), is_dst=spec.get("is_dst", False))
    if t == "td":
        return _dt.timedelta(days=spec.get("d", 0), seconds=spec.get("s", 0), microseconds=spec.get("us", 0))
    if t == "wd":
        return pendulum.WeekDay(spec["v"])
    if t == "call":
        o = build(spec["o"], env)
        return getattr(o, spec["m"])(*build(spec.get("a", []), env), **build(spec.get("kw", {}), env))
    if t == "tuple":
        return tuple(build(spec["v"], env))
    if t == "parse":
        kw = dict(spec.get("kw", {}))
        if "tz" in kw:
            kw["tz"] = _zone(kw["tz"])
        return pendulum.parse(spec["s"], **kw)
    if t == "pcall":
        return getattr(pendulum, spec["n"])(*build(spec.get("a", []), env), **build(spec.get("kw", {}), env))
    raise ValueError("unknown spec %r" % (spec,))


_BIN = {
    "add": operator.add, "sub": operator.sub, "mul": operator.mul, "truediv": operator.truediv,
    "floordiv": operator.floordiv, "mod": operator.mod, "eq": operator.eq, "lt": operator.lt,
    "le": operator.le, "contains": operator.contains, "divmod": divmod,
}
_UN = {"neg": operator.neg, "abs": abs, "str": str, "repr": repr, "pos": operator.pos, "bool": bool}


def execute(op, env: Env):
    f = op[0]
    if f == "get":
        return getattr(build(op[1], env), op[2])
    if f == "call":
        o = build(op[1], env)
        a = build(op[3], env) if len(op) > 3 else []
        kw = build(op[4], env) if len(op) > 4 else {}
        return getattr(o, op[2])(*a, **kw)
    if f == "pcall":
        a = build(op[2], env) if len(op) > 2 else []
        kw = build(op[3], env) if len(op) > 3 else {}
        return getattr(pendulum, op[1])(*a, **kw)
    if f == "bin":
        return _BIN[op[1]](build(op[2], env), build(op[3], env))
    if f == "un":
        return _UN[op[1]](build(op[2], env))
    if f == "multi":
        o = build(op[1], env)
        return [getattr(o, a) for a in op[2]]
    if f == "obs":
        return build(op[1], env)
    if f == "copy":
        return copy.copy(build(op[1], env))
    if f == "deepcopy":
        return copy.deepcopy(build(op[1], env))
    if f == "pickle":
        return pickle.loads(pickle.dumps(build(op[1], env), op[2] if len(op) > 2 else pickle.HIGHEST_PROTOCOL))
    if f == "dumps":
        return pickle.dumps(build(op[1], env), op[2] if len(op) > 2 else pickle.HIGHEST_PROTOCOL)
    if f in ("eqcopy", "subcopy"):
        # copy a value and relate the copy to its original inside one op, so that the identity
        # relations between the two (shared tzinfo objects) are the same in every re-execution
        a = build(op[1], env)
        how = op[2]
        if how == "copy":
            b = copy.copy(a)
        elif how == "deepcopy":
            b = copy.deepcopy(a)
        else:
            b = pickle.loads(pickle.dumps(a, op[3] if len(op) > 3 else pickle.HIGHEST_PROTOCOL))
        if f == "subcopy":
            return b - a
        try:
            h = hash(a) == hash(b)
        except TypeError:
            h = None
        return [b == a, a == b, h]
    if f == "eqpair":
        # (copy == original, original == copy, hash equal where hashable)
        a, b = build(op[1], env), build(op[2], env)
        try:
            h = hash(a) == hash(b)
        except TypeError:
            h = None
        return [a == b, b == a, h]
    if f == "range5":
        a = build(op[1], env)
        b = a.add(**{op[2]: op[3] * op[4]})
        out = []
        for k, v in enumerate(pendulum.interval(a, b).range(op[2], op[3])):
            if k >= 5:
                break
            out.append(v)
        return out
    if f == "build":
        return build(op[1], env)
    if f == "rebuild":
        o = build(op[1], env)
        return pendulum.duration(
            years=o.years, months=o.months, weeks=o.weeks, days=o.remaining_days, hours=o.hours,
            minutes=o.minutes, seconds=o.remaining_seconds, microseconds=o.microseconds)
    if f == "iv_sym":
        iv = build(op[1], env)
        return [iv, -iv]
    if f == "iv_inm":
        iv = build(op[1], env)
        return [iv.years, iv.months, iv.in_months(), iv.in_years()]
    if f == "utc_pair":
        a, b = build(op[1], env), build(op[2], env)
        return [pendulum.interval(a, b), pendulum.interval(a.in_tz("UTC"), b.in_tz("UTC"))]
    if f == "add_back":
        # a + (b - a) through the components the interval reports
        a, iv = build(op[1], env), build(op[2], env)
        return a.add(years=iv.years, months=iv.months, weeks=iv.weeks, days=iv.remaining_days,
                     **({} if not isinstance(a, _dt.datetime) else dict(
                         hours=iv.hours, minutes=iv.minutes, seconds=iv.remaining_seconds,
                         microseconds=iv.microseconds)))
    raise ValueError("unknown op %r" % (op,))


def op_label(op):
    f = op[0]
    if f in ("get", "call"):
        return "%s:%s" % (f, op[2])
    if f in ("pcall", "bin", "un"):
        return "%s:%s" % (f, op[1])
    if f == "nem":
        return "nem:%s" % op[1]
    return f
