"""The simulated world: every piece of ambient state pendulum can read.

One World per OS process.  ``reset(cfg)`` puts the process into the canonical
state a fresh interpreter would have (empty module caches, default configuration)
and then applies the run's configuration.  Registers (clock, locale, week start/end,
mock local zone, calendar.firstweekday) are written only through this object, so the
engine knows every value a register ever held.
"""
from __future__ import annotations

import builtins
import calendar
import datetime as _dt
import io
import threading
import os
import posixpath
import sys
import time
import types
import warnings
import zoneinfo

_real_open = builtins.open
_real_environ = os.environ

# zone lookups are answered by the tzdata package only (see sim/tzdb.py)
zoneinfo.reset_tzpath(to=[])

import time_machine  # noqa: E402

import pendulum  # noqa: E402
import pendulum.locales.locale as _locmod  # noqa: E402
import pendulum.tz as _tzmod  # noqa: E402
from pendulum.tz.timezone import FixedTimezone, Timezone  # noqa: E402

_ltz = sys.modules["pendulum.tz.local_timezone"]

_REPO_ROOT = os.path.realpath(os.environ.get("VERIF_REPO", "/repo"))
assert os.path.realpath(pendulum.__file__).startswith(_REPO_ROOT + "/src/"), (pendulum.__file__, _REPO_ROOT)

LOCALES = sorted(
    d for d in os.listdir(os.path.dirname(_locmod.__file__))
    if os.path.isdir(os.path.join(os.path.dirname(_locmod.__file__), d)) and not d.startswith("_")
)

UTC_TZINFO = _dt.timezone.utc
EPOCH = _dt.datetime(1970, 1, 1, tzinfo=UTC_TZINFO)

_TZDATA_ROOT = None


def tzif_bytes(name: str) -> bytes:
    global _TZDATA_ROOT
    if _TZDATA_ROOT is None:
        import tzdata

        _TZDATA_ROOT = os.path.join(os.path.dirname(tzdata.__file__), "zoneinfo")
    with _real_open(os.path.join(_TZDATA_ROOT, *name.split("/")), "rb") as f:
        return f.read()


# --------------------------------------------------------------------------- fake fs
class FakeFS:
    """In-memory tree seen by pendulum.tz.local_timezone through ``os`` and ``open``.

    nodes: path -> ("f", bytes) | ("l", target)
    faults: list of armed faults {"path":p,"kind":k,...}; a fault fires (and is
    consumed) when the matching call happens; firings are reported to ``on_fire``.
    """

    def __init__(self):
        self.nodes = {}
        self.faults = []
        self.on_fire = None
        self.calls = 0

    def load(self, spec):
        self.nodes = {}
        self.faults = []
        for path, node in (spec or {}).items():
            self.put(path, node)

    def put(self, path, node):
        if node is None:
            self.nodes.pop(path, None)
            return
        kind = node[0]
        if kind == "l":
            self.nodes[path] = ("l", node[1])
        elif kind == "text":
            self.nodes[path] = ("f", node[1].encode("utf-8"))
        elif kind == "hex":
            self.nodes[path] = ("f", bytes.fromhex(node[1]))
        elif kind == "tzif":
            self.nodes[path] = ("f", tzif_bytes(node[1]))
        elif kind == "tzif_trunc":
            self.nodes[path] = ("f", tzif_bytes(node[1])[: node[2]])
        else:
            raise ValueError(node)

    def arm(self, fault):
        self.faults.append(dict(fault))

    def _fire(self, path, call):
        for i, f in enumerate(self.faults):
            if f["path"] == path and f["call"] == call:
                del self.faults[i]
                if self.on_fire:
                    self.on_fire(f)
                return f
        return None

    def resolve(self, p, depth=0):
        n = self.nodes.get(p)
        if n and n[0] == "l" and depth < 8:
            return self.resolve(n[1], depth + 1)
        return p

    def isfile(self, p):
        self.calls += 1
        n = self.nodes.get(self.resolve(p))
        return bool(n and n[0] == "f")

    def islink(self, p):
        self.calls += 1
        n = self.nodes.get(p)
        return bool(n and n[0] == "l")

    def readlink(self, p):
        n = self.nodes.get(p)
        if not n or n[0] != "l":
            raise OSError(22, "Invalid argument", p)
        return n[1]

    def open(self, p, mode="r", *a, **k):
        self.calls += 1
        f = self._fire(p, "open")
        if f is not None:
            kind = f["kind"]
            if kind == "ENOENT":
                raise FileNotFoundError(2, "No such file or directory", p)
            if kind == "EACCES":
                raise PermissionError(13, "Permission denied", p)
            if kind == "EIO":
                raise OSError(5, "Input/output error", p)
            if kind == "EMFILE":
                raise OSError(24, "Too many open files", p)
        n = self.nodes.get(self.resolve(p))
        if not n or n[0] != "f":
            raise FileNotFoundError(2, "No such file or directory", p)
        data = n[1]
        if f is not None and f["kind"] == "short":
            data = data[: f.get("n", 3)]
        if "b" in mode:
            return io.BytesIO(data)
        return io.StringIO(data.decode("utf-8"))


class FakeEnviron(dict):
    pass


# --------------------------------------------------------------------------- world
class World:
    REGS = ("clock", "locale", "week_start", "week_end", "mock_tz", "cal_fwd")

    def __init__(self):
        self.fs = FakeFS()
        self.env = FakeEnviron()
        fakepath = types.SimpleNamespace(
            isfile=self.fs.isfile,
            islink=self.fs.islink,
            realpath=self.fs.resolve,
            join=posixpath.join,
            sep="/",
        )
        self.fakeos = types.SimpleNamespace(
            environ=self.env, path=fakepath, readlink=self.fs.readlink, sep="/"
        )
        _ltz.os = self.fakeos
        _ltz.open = self.fs.open
        # import every locale once so that Locale.load never takes the import lock
        for name in LOCALES:
            __import__("pendulum.locales.%s.locale" % name)
            __import__("pendulum.locales.%s.custom" % name)
        # naive destinations: time_machine reads them as UTC *without* touching os.environ["TZ"]
        # (an aware UTC destination would reset the C library's zone to UTC on every move)
        self._traveller = time_machine.travel(EPOCH.replace(tzinfo=None), tick=False)
        self._coords = self._traveller.start()
        self.clock_us = 0
        self.ctz = None
        self.clock_positions = set()
        self._shadow = {}
        self._mock_obj = None
        self._mock_cm = None
        warnings.simplefilter("ignore")
        self.reset({})

    # ------------------------------------------------------------- registers
    def set_clock(self, us: int):
        self.clock_us = us
        self._coords.move_to(EPOCH.replace(tzinfo=None) + _dt.timedelta(microseconds=us))
        self.clock_positions.add(us)

    def clock_dt(self):
        return EPOCH + _dt.timedelta(microseconds=self.clock_us)

    # Registers are written by private name when the private representation is the known one (a
    # str / WeekDay / tzinfo-or-None module global): that keeps the reference evaluation free of
    # pendulum code.  If a refactoring renamed or re-typed a global (a ContextVar, a settings
    # object ...), the public setter is used instead and the harness' own shadow copy answers reads -
    # never a clobbered attribute, which would turn a harmless refactoring into an alarm.
    _PRIV = {"locale": (pendulum, "_LOCALE", str), "week_start": (pendulum, "_WEEK_STARTS_AT", int),
             "week_end": (pendulum, "_WEEK_ENDS_AT", int), "mock_tz": (_ltz, "_mock_local_timezone", (_dt.tzinfo, type(None)))}

    def _known_repr(self, reg):
        mod, name, typ = self._PRIV[reg]
        return hasattr(mod, name) and isinstance(getattr(mod, name), typ)

    def set_reg(self, reg, val):
        self._shadow[reg] = val
        if reg == "clock":
            self.set_clock(val)
        elif reg == "locale":
            if self._known_repr(reg):
                pendulum._LOCALE = val
            else:
                pendulum.set_locale(val)
        elif reg == "week_start":
            if self._known_repr(reg):
                pendulum._WEEK_STARTS_AT = pendulum.WeekDay(val)
            else:
                pendulum.week_starts_at(pendulum.WeekDay(val))
        elif reg == "week_end":
            if self._known_repr(reg):
                pendulum._WEEK_ENDS_AT = pendulum.WeekDay(val)
            else:
                pendulum.week_ends_at(pendulum.WeekDay(val))
        elif reg == "mock_tz":
            tz = None if val is None else self.zone(val)
            self._mock_obj = tz
            if self._known_repr(reg):
                _ltz._mock_local_timezone = tz
            else:
                pendulum.set_local_timezone(tz)
        elif reg == "cal_fwd":
            calendar.setfirstweekday(val)
        else:
            raise KeyError(reg)

    def set_mock_obj(self, tz):
        """make this very tzinfo object the mock local zone (zone-identity replay)"""
        self._mock_obj = tz
        if self._known_repr("mock_tz"):
            _ltz._mock_local_timezone = tz
        else:
            pendulum.set_local_timezone(tz)

    def get_reg(self, reg):
        if reg == "clock":
            return self.clock_us
        if reg == "cal_fwd":
            return calendar.firstweekday()
        if reg in self._PRIV and not self._known_repr(reg):
            return self._shadow.get(reg)
        if reg == "locale":
            return pendulum._LOCALE
        if reg == "week_start":
            return int(pendulum._WEEK_STARTS_AT)
        if reg == "week_end":
            return int(pendulum._WEEK_ENDS_AT)
        if reg == "mock_tz":
            m = _ltz._mock_local_timezone
            return None if m is None else zone_key(m)
        raise KeyError(reg)

    def regs(self):
        return {r: self.get_reg(r) for r in self.REGS}

    @staticmethod
    def zone(key):
        """zone literal -> tzinfo: str name | int fixed offset seconds"""
        if isinstance(key, int):
            return FixedTimezone(key)
        if isinstance(key, (tuple, list)) and key[0] == "file":
            return Timezone.from_file(io.BytesIO(key[1]))
        return pendulum.timezone(key)

    # ---------------------------------------------------------------- caches
    def drop_caches(self):
        """What a new process would not have (the 'restart')."""
        # by private name, each guarded: after a refactoring that renames one of them the restart is
        # less cold (the cold-process oracle, forked before pendulum did anything, covers that), never
        # a harness error
        c = getattr(_tzmod, "_tz_cache", None)
        if hasattr(c, "clear"):
            c.clear()
        if hasattr(_tzmod, "_timezones"):
            _tzmod._timezones = None
        if hasattr(_ltz, "_local_timezone"):
            _ltz._local_timezone = None
        lc = getattr(_locmod.Locale, "_cache", None)
        if isinstance(lc, dict):
            for loc in list(lc.values()):
                kc = getattr(loc, "_key_cache", None)
                if hasattr(kc, "clear"):
                    kc.clear()
            lc.clear()
        # DifferenceFormatter holds its own default Locale('en') object
        try:
            pendulum.helpers.difference_formatter._locale._key_cache.clear()
        except AttributeError:
            pass
        Timezone.clear_cache()
        zoneinfo.ZoneInfo.clear_cache()
        # a fresh process has UTC in the weak cache (module constant keeps it alive)
        try:
            Timezone._weak_cache["UTC"] = pendulum.UTC
        except Exception:
            pass

    def set_ctz(self, name):
        """the C library's local zone (date.today(), naive datetime.now())"""
        if name != self.ctz:
            if name is None:
                _real_environ.pop("TZ", None)
            else:
                _real_environ["TZ"] = name
            time.tzset()
            self.ctz = name

    def reset(self, cfg):
        self.drop_caches()
        zone_history_reset()
        self.set_reg("locale", "en")
        self.set_reg("week_start", 0)
        self.set_reg("week_end", 6)
        self._mock_cm = None
        self.set_reg("mock_tz", None)
        calendar.setfirstweekday(0)
        self.fs.load(cfg.get("fs"))
        self.fs.on_fire = None
        self.env.clear()
        self.env.update(cfg.get("env") or {})
        self.set_ctz(cfg.get("ctz", "UTC"))
        self.set_clock(cfg.get("clock", 1_600_000_000_000_000))
        for reg in ("locale", "week_start", "week_end", "mock_tz", "cal_fwd"):
            if reg in cfg:
                self.set_reg(reg, cfg[reg])

    def close(self):
        self._traveller.stop()


# Whether two values of one named zone share their tzinfo *object* is decided by zoneinfo's cache,
# i.e. by history (a clear_cache(), a restart, an eviction, what another thread looked up).  Results
# may legitimately depend on it where no property speaks (components of an interval between the two
# occurrences of one wall time), so the identity of every zone object is part of what the reference
# evaluation replays.  Timezone.__new__ is wrapped (from outside - /repo is untouched): in the
# simulation every lookup of a named zone - by the harness or by pendulum itself - logs the *token*
# of the object it returned (tokens number the distinct objects of the run in order of first sight;
# read off the returned object after the C-level lookup, so no pre-emption can falsify it); in a
# reference evaluation the k-th lookup is made to return the object mapped to the k-th logged token
# (in-process: the simulation's own object; cold process: one fresh object per token).
ZONE_HISTORY = {"log": {}, "replay": None, "k": 0, "map": None, "tokens": {}, "objs": []}


_tz_new_orig = Timezone.__new__


def _tz_new(cls, key):
    z = ZONE_HISTORY
    rp = z["replay"]
    if rp is not None:
        k = z["k"]
        z["k"] = k + 1
        if k >= len(rp) or cls is not Timezone:
            return _tz_new_orig(cls, key)
        tok = rp[k]
        want = z["map"].get(tok)
        Timezone.clear_cache(only_keys=[key])
        if want is not None and want.key == key:
            Timezone._weak_cache[key] = want
        obj = _tz_new_orig(cls, key)
        if want is None:
            z["map"][tok] = obj
        return obj
    obj = _tz_new_orig(cls, key)
    tok = z["tokens"].get(id(obj))
    if tok is None:
        tok = z["tokens"][id(obj)] = len(z["objs"])
        z["objs"].append(obj)        # kept alive for the run: ids are not reused
    lst = z["log"].get(threading.get_ident())
    if lst is not None:
        lst.append(tok)
    return obj


Timezone.__new__ = staticmethod(_tz_new)


def zone_history_reset():
    z = ZONE_HISTORY
    z.update(replay=None, k=0, map=None, tokens={id(pendulum.UTC): 0}, objs=[pendulum.UTC])
    z["log"].clear()


def zone_replay(tokens, mapping):
    ZONE_HISTORY.update(replay=list(tokens), k=0, map=mapping)


def zone_replay_end():
    ZONE_HISTORY.update(replay=None, k=0, map=None)


def zone_key(tz):
    if tz is None:
        return None
    if isinstance(tz, FixedTimezone):
        return tz.offset
    k = getattr(tz, "key", None)
    if k is not None:
        return k
    return str(tz)


_WORLD = None


def get_world() -> World:
    global _WORLD
    if _WORLD is None:
        _WORLD = World()
    return _WORLD
