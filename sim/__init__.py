from . import coop  # noqa: F401  (must precede any import of pendulum)
