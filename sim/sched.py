"""Deterministic baton-passing scheduler for real threads.

Exactly one actor thread runs at a time.  Every *yield point* asks the scheduler
(never the OS) whether the baton moves.  Yield points are

  * sys.settrace events inside frames of /repo/src/pendulum (``line`` events in
    ``line`` granularity; in ``evalbreaker`` granularity only those ``opcode``
    events at which CPython 3.12 can really hand over the GIL), and
  * explicit op-boundary yields issued by the harness.

Decisions come either from a strategy driven by one ``random.Random`` or from an
explicit schedule (replay / minimisation).  Every effective decision is recorded
as ``(actor, k, target)`` where ``k`` is the actor's own yield-point counter, so
an explicit schedule stays meaningful when unrelated switches are removed.
"""
from __future__ import annotations

import opcode
import os
import sys
import threading
import zlib

from . import coop

# VERIF_REPO: root of the repository under test (default /repo); only the self-tests override it
REPO_ROOT = os.path.realpath(os.environ.get("VERIF_REPO", "/repo"))
SRC_PREFIX = os.path.join(REPO_ROOT, "src", "pendulum") + os.sep
_LOCALE_DIR = SRC_PREFIX + "locales" + os.sep
_LOCALE_CORE = _LOCALE_DIR + "locale.py"

_traced_code: dict = {}      # code object -> bool
_code_bytes: dict = {}       # code object -> de-instrumented bytecode
_store_lines: dict = {}      # code object -> frozenset(lineno with a STORE_ATTR/GLOBAL/SUBSCR)

_RESUME = opcode.opmap["RESUME"]
_JB = opcode.opmap["JUMP_BACKWARD"]
_CALLS = frozenset(
    opcode.opmap[n] for n in ("CALL", "CALL_FUNCTION_EX", "CALL_KW") if n in opcode.opmap
)
_STORES = frozenset(
    opcode.opmap[n]
    for n in ("STORE_ATTR", "STORE_GLOBAL", "STORE_SUBSCR", "DELETE_SUBSCR", "DELETE_ATTR")
    if n in opcode.opmap
)


def is_traced(code) -> bool:
    f = _traced_code.get(code)
    if f is None:
        fn = code.co_filename
        f = fn.startswith(SRC_PREFIX) and (
            not fn.startswith(_LOCALE_DIR) or fn == _LOCALE_CORE
        )
        _traced_code[code] = f
    return f


_read_lines: dict = {}       # code object -> frozenset(lineno that reads an underscore global/attribute)
_READS = frozenset(opcode.opmap[n] for n in ("LOAD_ATTR", "LOAD_GLOBAL", "LOAD_NAME") if n in opcode.opmap)


def _reads_of(code):
    """lines that read a private global or attribute (process-wide configuration such as
    pendulum._WEEK_STARTS_AT / _mock_local_timezone, lazily filled slots such as self._h):
    the places where a second read of the same state can be separated from the first."""
    s = _read_lines.get(code)
    if s is None:
        import dis

        lines = set()
        for ins in dis.get_instructions(code):
            if ins.opcode in _READS and isinstance(ins.argval, str) and ins.argval.startswith("_") \
                    and not ins.argval.startswith("__") and ins.positions and ins.positions.lineno:
                lines.add(ins.positions.lineno)
        s = frozenset(lines)
        _read_lines[code] = s
    return s


def _stores_of(code):
    s = _store_lines.get(code)
    if s is None:
        import dis

        lines = set()
        for ins in dis.get_instructions(code):
            if ins.opcode in _STORES and ins.positions and ins.positions.lineno:
                lines.add(ins.positions.lineno)
        s = frozenset(lines)
        _store_lines[code] = s
    return s


class HarnessError(Exception):
    pass


class _Monitor:
    """Eval-breaker granularity through sys.monitoring (PEP 669).

    CPython 3.12 can hand the GIL over only where the eval loop checks its "eval breaker":
    at RESUME (function entry, generator resumption), at backward jumps, and on return from
    a call into C.  Exactly these are observable as monitoring events, so no per-instruction
    tracing is needed:
        PY_START / PY_RESUME  -> RESUME of a pendulum frame
        JUMP with dst < src   -> JUMP_BACKWARD
        C_RETURN              -> a C callee returned (needs CALL monitoring)
        CALL of a Python callee outside pendulum -> stands for that callee's RESUME
    (An earlier implementation used sys.settrace opcode events; CPython 3.12.1 crashes with a
    segmentation fault when an exception propagates out of a C callee while two threads are
    traced that way, so it was replaced.)
    """

    def __init__(self):
        self.mon = sys.monitoring
        self.tool = self.mon.PROFILER_ID
        self.by_tid = {}
        self.local_set = set()
        self.registered = False
        E = self.mon.events
        self.GLOBAL = E.PY_START | E.PY_RESUME
        self.LOCAL = E.JUMP | E.CALL | E.C_RETURN | E.C_RAISE

    def _register(self):
        if self.registered:
            return
        m, E = self.mon, self.mon.events
        m.use_tool_id(self.tool, "pendulum-sim")
        m.register_callback(self.tool, E.PY_START, self._py_start)
        m.register_callback(self.tool, E.PY_RESUME, self._py_start)
        m.register_callback(self.tool, E.JUMP, self._jump)
        m.register_callback(self.tool, E.CALL, self._call)
        m.register_callback(self.tool, E.C_RETURN, self._c_return)
        self.registered = True

    def enable(self):
        self._register()
        self.mon.set_events(self.tool, self.GLOBAL)
        self.mon.restart_events()

    def disable(self):
        self.mon.set_events(self.tool, 0)
        for code in self.local_set:
            self.mon.set_local_events(self.tool, code, 0)
        self.local_set.clear()
        self.by_tid.clear()

    def attach(self, tid, sched, actor):
        self.by_tid[tid] = (sched, actor)

    def detach(self, tid):
        self.by_tid.pop(tid, None)

    # ---- callbacks (run in the thread that executes the code)
    def _py_start(self, code, offset):
        if not is_traced(code):
            return self.mon.DISABLE
        ent = self.by_tid.get(threading.get_ident())
        if ent is None:
            return None
        if code not in self.local_set:
            self.local_set.add(code)
            self.mon.set_local_events(self.tool, code, self.LOCAL)
        ent[0]._step(ent[1], code, code.co_firstlineno)
        return None

    def _jump(self, code, src, dst):
        if dst >= src:
            return self.mon.DISABLE     # forward jump: never a hand-over point
        ent = self.by_tid.get(threading.get_ident())
        if ent is not None:
            ent[0]._step(ent[1], code, dst)
        return None

    def _call(self, code, offset, callable_, arg0):
        ent = self.by_tid.get(threading.get_ident())
        if ent is None:
            return None
        co = getattr(callable_, "__code__", None)
        if co is not None and not is_traced(co):
            # an untraced Python callee: its RESUME is a hand-over point and it touches no
            # pendulum state, so the switch is equivalent to one right here
            ent[0]._step(ent[1], code, offset)
        return None

    def _c_return(self, code, offset, callable_, arg0):
        ent = self.by_tid.get(threading.get_ident())
        if ent is not None:
            ent[0]._step(ent[1], code, offset)
        return None


MONITOR = _Monitor()


class Actor:
    __slots__ = (
        "name", "idx", "fn", "sem", "alive", "waiting", "k", "thread", "error",
        "stack", "gtrace", "prio", "last_store", "at",
    )

    def __init__(self, name, idx, fn):
        self.name = name
        self.idx = idx
        self.fn = fn
        self.sem = threading.Semaphore(0)
        self.alive = True
        self.waiting = False
        self.k = 0
        self.thread = None
        self.error = None
        self.stack = []
        self.gtrace = None
        self.prio = 0
        self.last_store = False
        self.at = None


class Scheduler:
    """strategy: dict, one of
         {"kind":"random","p":0.3}
         {"kind":"pct","d":2,"horizon":400}
         {"kind":"sticky","p_store":0.6,"p":0.02}
         {"kind":"reads","p_read":0.5,"p":0.02,"to_nemesis":0.7}   (pre-empt where private state is re-read)
         {"kind":"explicit","switches":[[actor,k,target],...],"fin":{actor:target}}
         {"kind":"none"}   (no pre-emption: actors run to completion in spawn order)
    """

    def __init__(self, strategy, rng, gran="line", step_cap=20000, full_digest=True):
        self.strategy = strategy
        self.kind = strategy["kind"]
        self.rng = rng
        self.gran = gran
        self.step_cap = step_cap
        self.full_digest = full_digest
        self.actors: list[Actor] = []
        self.by_name: dict[str, Actor] = {}
        self.nsteps = 0
        self.capped = False
        self.no_preempt = False
        self.atomic = 0
        self.switches: list = []      # [actor, k, target]
        self.fin: dict = {}           # actor -> target chosen at finish
        self.seq = 0                  # global event sequence number
        self.crc = 0
        self.done = threading.Event()
        self.current: Actor | None = None
        self.nswitch = 0
        self.mid_switches = 0     # pre-emptions that landed inside pendulum code
        self.overlaps = 0         # ... while another actor was parked inside the same function
        self.sites: dict = {}     # (function, line) -> pre-emption count
        if self.kind == "explicit":
            self._exp = {(a, k): t for a, k, t in strategy.get("switches", [])}
            self._expfin = dict(strategy.get("fin", {}))
        if self.kind == "reads1":
            self._reads_seen = 0
            self._reads_target = rng.randrange(1, max(2, int(strategy.get("reads_horizon", 12))) + 1)
        if self.kind == "pct":
            hz = max(2, int(strategy.get("horizon", 400)))
            self._pct_points = set(rng.randrange(1, hz) for _ in range(strategy.get("d", 1)))
            self._pct_low = 0

    # ------------------------------------------------------------------ setup
    def add_actor(self, name, fn):
        a = Actor(name, len(self.actors), fn)
        self.actors.append(a)
        self.by_name[name] = a
        a.gtrace = self._make_gtrace(a)
        return a

    def next_seq(self):
        self.seq += 1
        return self.seq

    # ---------------------------------------------------------------- tracing
    def _make_gtrace(self, a: Actor):
        step = self._step
        if self.gran == "line":
            def local(frame, event, arg):
                if event == "line":
                    step(a, frame.f_code, frame.f_lineno)
                return local

            def gtrace(frame, event, arg):
                if event == "call" and is_traced(frame.f_code):
                    return local
                return None

            return gtrace

        # evalbreaker granularity: yield points come from sys.monitoring (see _Monitor below);
        # no sys.settrace function is installed for this actor
        return None

    # ------------------------------------------------------------- decisions
    def _runnable(self):
        return [x for x in self.actors if x.alive and not x.waiting]

    def _step(self, a: Actor, code, lineno):
        self.nsteps += 1
        a.k += 1
        if self.full_digest:
            self.crc = zlib.crc32(
                b"%d:%s:%d;" % (a.idx, code.co_name.encode() if code is not None else b"-", lineno),
                self.crc,
            )
        if self.no_preempt or self.atomic:
            return
        if self.nsteps > self.step_cap:
            self.capped = True
            self.no_preempt = True
            return
        kind = self.kind
        tgt = None
        if kind == "explicit":
            t = self._exp.get((a.name, a.k))
            if t is not None:
                x = self.by_name.get(t)
                if x is not None and x.alive and not x.waiting:
                    tgt = x
        elif kind == "random":
            if self.rng.random() < self.strategy["p"]:
                r = self._runnable()
                if len(r) > 1:
                    tgt = r[self.rng.randrange(len(r))]
        elif kind == "sticky":
            p = self.strategy["p"]
            if a.last_store:
                p = self.strategy["p_store"]
            a.last_store = code is not None and lineno in _stores_of(code)
            if self.rng.random() < p:
                r = self._runnable()
                if len(r) > 1:
                    tgt = r[self.rng.randrange(len(r))]
        elif kind == "reads1":
            # exactly one targeted pre-emption: at the k-th line (over all client actors) that
            # re-reads private state, hand over to the nemesis (else to a random other actor)
            if code is not None and a.name != "N" and lineno in _reads_of(code):
                self._reads_seen += 1
                if self._reads_seen == self._reads_target:
                    r = self._runnable()
                    if len(r) > 1:
                        nem = [x for x in r if x.name == "N" and x is not a]
                        others = [x for x in r if x is not a]
                        tgt = nem[0] if nem else others[self.rng.randrange(len(others))]
            elif self.rng.random() < self.strategy.get("p", 0.01):
                r = self._runnable()
                if len(r) > 1:
                    tgt = r[self.rng.randrange(len(r))]
        elif kind == "reads":
            p = self.strategy["p"]
            if code is not None and lineno in _reads_of(code):
                p = self.strategy["p_read"]
            if self.rng.random() < p:
                r = self._runnable()
                if len(r) > 1:
                    nem = [x for x in r if x.name == "N" and x is not a]
                    if nem and self.rng.random() < self.strategy.get("to_nemesis", 0.7):
                        tgt = nem[0]
                    else:
                        tgt = r[self.rng.randrange(len(r))]
        elif kind == "pct":
            if self.nsteps in self._pct_points:
                self._pct_low -= 1
                a.prio = self._pct_low
            r = self._runnable()
            if len(r) > 1:
                best = max(r, key=lambda x: (x.prio, -x.idx))
                if best is not a:
                    tgt = best
        if tgt is not None and tgt is not a:
            self._switch(a, tgt, code, lineno)

    def op_yield(self, a: Actor):
        """explicit yield point at an op boundary (harness level)."""
        self._step(a, None, 0)

    def _switch(self, a: Actor, tgt: Actor, code=None, lineno=0):
        self.switches.append([a.name, a.k, tgt.name])
        self.nswitch += 1
        if code is not None:
            # pre-emption inside pendulum code (not at an op boundary)
            self.mid_switches += 1
            site = (code.co_name, lineno)
            self.sites[site] = self.sites.get(site, 0) + 1
            a.at = code
            for x in self.actors:
                if x is not a and x.alive and x.at is code:
                    self.overlaps += 1
                    break
        else:
            a.at = None
        self.seq += 1
        self.crc = zlib.crc32(b"sw%d>%d@%d;" % (a.idx, tgt.idx, a.k), self.crc)
        self.current = tgt
        tgt.sem.release()
        a.sem.acquire()

    # ---------------------------------------------------------------- barrier
    def barrier(self, a: Actor, action=None):
        """All live actors must arrive; the last one runs ``action`` atomically."""
        a.waiting = True
        others = [x for x in self.actors if x.alive and not x.waiting]
        if others:
            tgt = self._pick_successor(a, others, key="bar:%s:%d" % (a.name, a.k))
            self.current = tgt
            tgt.sem.release()
            a.sem.acquire()
            return
        # last arriver
        self.atomic += 1
        try:
            if action is not None:
                action()
        finally:
            self.atomic -= 1
        for x in self.actors:
            x.waiting = False
        # the last arriver keeps running; the others are released when scheduled

    def _pick_successor(self, a, cands, key):
        if self.kind == "explicit":
            t = self._expfin.get(key)
            if t is not None:
                x = self.by_name.get(t)
                if x in cands:
                    return x
            return cands[0]
        if self.kind == "pct":
            x = max(cands, key=lambda x: (x.prio, -x.idx))
        elif self.kind == "none":
            x = cands[0]
        else:
            x = cands[self.rng.randrange(len(cands))]
        self.fin[key] = x.name
        return x

    # ------------------------------------------------------------------- run
    def blocked_yield(self, a: Actor):
        """``a`` found a lock of the code under test held by a parked actor: run somebody else."""
        others = [x for x in self.actors if x.alive and not x.waiting and x is not a]
        if not others:
            raise HarnessError("actor %s blocks on a lock no runnable actor can release (deadlock in the code under test "
                               "or a lock held across a barrier)" % a.name)
        a.k += 1
        self.nsteps += 1
        if self.nsteps > self.step_cap * 4:
            raise HarnessError("lock contention did not resolve")
        if self.kind == "explicit":
            t = self._exp.get((a.name, a.k))
            tgt = self.by_name.get(t) if t else None
            if tgt is None or tgt not in others:
                tgt = others[0]
        else:
            tgt = others[self.rng.randrange(len(others))]
        self._switch(a, tgt)

    def _thread_main(self, a: Actor):
        a.sem.acquire()
        coop.ACTORS[threading.get_ident()] = (self, a)
        if self.gran == "line":
            sys.settrace(a.gtrace)
        else:
            MONITOR.attach(threading.get_ident(), self, a)
        try:
            a.fn(a)
        except BaseException as e:  # harness failure, never a property verdict
            a.error = e
        finally:
            if self.gran == "line":
                sys.settrace(None)
            else:
                MONITOR.detach(threading.get_ident())
            coop.ACTORS.pop(threading.get_ident(), None)
            a.alive = False
            a.waiting = False
            r = self._runnable()
            if r:
                tgt = self._pick_successor(a, r, key="fin:%s" % a.name)
                self.current = tgt
                tgt.sem.release()
            else:
                if any(x.alive for x in self.actors):
                    a.error = a.error or HarnessError("deadlock: live actors all waiting at a barrier")
                    # release them so threads end
                    self.no_preempt = True
                    for x in self.actors:
                        if x.alive:
                            x.waiting = False
                            x.sem.release()
                self.done.set()

    def run(self, timeout=60.0):
        if not self.actors:
            return
        if self.kind == "pct":
            order = list(range(len(self.actors)))
            self.rng.shuffle(order)
            for p, i in enumerate(order):
                self.actors[i].prio = p + 1
        if self.gran != "line":
            MONITOR.enable()
        for a in self.actors:
            t = threading.Thread(target=self._thread_main, args=(a,), name="sim-" + a.name, daemon=True)
            a.thread = t
            t.start()
        if self.kind == "explicit":
            first = self.by_name.get(self.strategy.get("first") or "", self.actors[0])
        elif self.kind == "pct":
            first = max(self.actors, key=lambda x: (x.prio, -x.idx))
        elif self.kind == "none":
            first = self.actors[0]
        elif self.kind in ("reads", "reads1"):
            # a client goes first: the nemesis is to be brought in between two of its reads
            clients = [x for x in self.actors if x.name != "N"] or self.actors
            first = clients[self.rng.randrange(len(clients))]
        else:
            first = self.actors[self.rng.randrange(len(self.actors))]
        self.first = first.name
        self.current = first
        first.sem.release()
        finished = self.done.wait(timeout)
        if self.gran != "line":
            MONITOR.disable()
        if not finished:
            import faulthandler

            faulthandler.dump_traceback(file=sys.stderr)
            raise HarnessError("simulated run stalled for %.0fs (real lock reached?)" % timeout)
        for a in self.actors:
            a.thread.join(10)
        for a in self.actors:
            if a.error is not None:
                raise HarnessError("actor %s: %r" % (a.name, a.error)) from a.error

    def explicit_schedule(self):
        return {
            "kind": "explicit",
            "first": self.first,
            "switches": [list(s) for s in self.switches],
            "fin": dict(self.fin),
        }
