"""Canonical, identity-free observations of pendulum values (JSON-able)."""
from __future__ import annotations

import datetime as _dt

import pendulum
from pendulum.tz.timezone import FixedTimezone, Timezone


def tz_obs(tz):
    if tz is None:
        return None
    if isinstance(tz, FixedTimezone):
        return ["FixedTimezone", tz.name, tz.offset]
    if isinstance(tz, Timezone):
        return ["Timezone", tz.key]
    name = getattr(tz, "key", None) or getattr(tz, "zone", None)
    return [type(tz).__name__, name if isinstance(name, str) else str(tz)]


def _off(x):
    try:
        o = x.utcoffset()
    except Exception as e:  # a broken tzinfo is an observation, not a harness error
        return ["EXC", type(e).__name__]
    if o is None:
        return None
    return o.days * 86400 + o.seconds + (o.microseconds / 1e6 if o.microseconds else 0)


def observe(x, depth=0):
    if depth > 6:
        return ["DEEP"]
    if x is None or isinstance(x, (bool, int, str)):
        return x
    if isinstance(x, float):
        return ["float", repr(x)]
    if isinstance(x, BaseException):
        return ["EXC", type(x).__name__, str(x)[:300]]
    if isinstance(x, pendulum.Interval):
        return [
            "Interval",
            observe(x.start, depth + 1),
            observe(x.end, depth + 1),
            getattr(x, "_absolute", None),
            [x.years, x.months, x.weeks, x.remaining_days, x.hours, x.minutes,
             x.remaining_seconds, x.microseconds],
            bool(x.invert),
            [_native(x, "days"), _native(x, "seconds"), _native(x, "microseconds")],
            x.in_days(),
        ]
    if isinstance(x, pendulum.Duration):
        return [
            type(x).__name__,
            [x.years, x.months, x.weeks, x.remaining_days, x.hours, x.minutes,
             x.remaining_seconds, x.microseconds],
            bool(x.invert),
            [_native(x, "days"), _native(x, "seconds"), _native(x, "microseconds")],
            ["float", repr(x.total_seconds())],
        ]
    if isinstance(x, _dt.timedelta):
        return ["timedelta", x.days, x.seconds, x.microseconds]
    if isinstance(x, _dt.datetime):
        return [
            type(x).__name__ if isinstance(x, pendulum.DateTime) else "native-datetime",
            [x.year, x.month, x.day, x.hour, x.minute, x.second, x.microsecond],
            _canon_fold(x),
            _off(x),
            tz_obs(x.tzinfo),
        ]
    if isinstance(x, _dt.date):
        return [type(x).__name__ if isinstance(x, pendulum.Date) else "native-date",
                [x.year, x.month, x.day]]
    if isinstance(x, _dt.time):
        return [type(x).__name__ if isinstance(x, pendulum.Time) else "native-time",
                [x.hour, x.minute, x.second, x.microsecond], tz_obs(x.tzinfo)]
    if isinstance(x, _dt.tzinfo):
        return ["tz", tz_obs(x)]
    if isinstance(x, (tuple, list)):
        return ["seq"] + [observe(y, depth + 1) for y in x]
    if isinstance(x, dict):
        return ["map"] + [[str(k), observe(v, depth + 1)] for k, v in sorted(x.items(), key=lambda kv: str(kv[0]))]
    if isinstance(x, (bytes, bytearray)):
        return ["bytes", len(x)]
    return ["obj", type(x).__name__, str(x)[:200]]


def _canon_fold(x):
    """fold is part of the value only where it selects between two instants, i.e. for a
    repeated wall time.  For every other wall time it is a hidden bit that e.g.
    datetime.astimezone() sets differently depending on whether the target tzinfo *is* the
    source tzinfo object (zone-cache identity), so it is not an observation."""
    tz = x.tzinfo
    if tz is None or isinstance(tz, FixedTimezone) or isinstance(tz, _dt.timezone):
        return None
    try:
        f = (x.year, x.month, x.day, x.hour, x.minute, x.second, x.microsecond)
        o0 = _dt.datetime(*f, tzinfo=tz, fold=0).utcoffset()
        o1 = _dt.datetime(*f, tzinfo=tz, fold=1).utcoffset()
    except Exception:
        return x.fold
    if o0 is not None and o1 is not None and o0 > o1:
        return x.fold
    return None


def raw_fold(x):
    return x.fold if isinstance(x, _dt.datetime) else None


def _native(x, attr):
    # native field of a timedelta subclass whose property of the same name is overridden
    return _dt.timedelta.__dict__[attr].__get__(x)
