"""Seeded search over scenarios, schedules and faults across worker processes.

(VERIF_SEED, run index) -> three PRNG sub-streams (program, world, schedule) -> one run.
"""
from __future__ import annotations

import collections
import concurrent.futures as cf
import faulthandler
import hashlib
import importlib
import json
import multiprocessing as mp
import os
import random
import sys
import time
import traceback

ROOT = os.path.dirname(os.path.dirname(os.path.abspath(__file__)))
EXIT_OK, EXIT_VIOLATION, EXIT_HARNESS = 0, 1, 2

TIERS = {
    # wall budget (s) for the search phase, share of evalbreaker granularity, strategies
    "quick": {"budget": 40.0, "evalbreaker": 0.2, "max_runs": 4_000_000},
    "thorough": {"budget": 600.0, "evalbreaker": 0.5, "max_runs": 400_000_000},
}

STRATEGIES_QUICK = [
    ("random", {"kind": "random", "p": 0.3}),
    ("random", {"kind": "random", "p": 0.08}),
    ("pct", {"kind": "pct", "d": 1}),
    ("pct", {"kind": "pct", "d": 2}),
    ("sticky", {"kind": "sticky", "p": 0.03, "p_store": 0.6}),
]
STRATEGIES_THOROUGH = STRATEGIES_QUICK + [
    ("random", {"kind": "random", "p": 0.7}),
    ("random", {"kind": "random", "p": 0.03}),
    ("pct", {"kind": "pct", "d": 3}),
    ("sticky", {"kind": "sticky", "p": 0.1, "p_store": 0.9}),
    ("none", {"kind": "none"}),
]


def load_prop(pid):
    return importlib.import_module("props.%s" % pid.lower())


def sub_rng(seed, idx, stream):
    return random.Random("%d:%d:%s" % (seed, idx, stream))


def make_scenario(prop, seed, idx, tier):
    rp, rw, rs = (sub_rng(seed, idx, s) for s in ("program", "world", "schedule"))
    sc = prop.gen(rp, rw, tier)
    sc["prop"] = prop.ID
    sc["origin"] = {"seed": seed, "run": idx, "tier": tier}
    cfg = TIERS[tier]
    sc["gran"] = "evalbreaker" if rs.random() < cfg["evalbreaker"] else "line"
    strats = STRATEGIES_QUICK if tier == "quick" else STRATEGIES_THOROUGH
    name, st = strats[rs.randrange(len(strats))]
    st = dict(st)
    if st["kind"] == "pct":
        hz = sc.pop("horizon", 300)
        if sc["gran"] == "evalbreaker":
            hz = max(10, hz // 3)
        st["horizon"] = max(4, int(hz * rs.choice((0.25, 0.5, 1.0, 1.5))))
    sc.pop("horizon", None)
    sc["strategy"] = st
    sc["sched_seed"] = rs.randrange(1 << 62)
    return sc


def _h64(obj):
    return int.from_bytes(hashlib.blake2b(json.dumps(obj, sort_keys=True, default=str).encode(), digest_size=8).digest(), "big")


class Agg:
    def __init__(self):
        self.c = collections.Counter()
        self.sites = collections.Counter()
        self.distinct = set()
        self.programs = set()
        self.viols = []
        self.samples = []
        self.harness = []
        self.clock_positions = set()
        self.labels = collections.Counter()
        self.known = {}

    def to_wire(self):
        return {
            "c": dict(self.c), "sites": dict(self.sites.most_common(400)),
            "distinct": list(self.distinct), "programs": list(self.programs),
            "viols": self.viols, "samples": self.samples, "harness": self.harness,
            "clock": [min(self.clock_positions), max(self.clock_positions), len(self.clock_positions)] if self.clock_positions else None,
            "clock_set": list(self.clock_positions)[:200000],
            "labels": dict(self.labels),
            "known": self.known,
        }


def _worker(args):
    pid, tier, seed, widx, nworkers, budget, max_runs, hashseed = args
    sys.path.insert(0, ROOT)
    faulthandler.enable()
    faulthandler.dump_traceback_later(budget * 3 + 120, exit=True)
    from sim import engine
    from sim.sched import HarnessError
    from sim.world import get_world

    prop = load_prop(pid)
    world = get_world()
    agg = Agg()
    known = load_known()
    t0 = time.perf_counter()
    idx = widx
    seen_sigs = set()
    while idx < max_runs:
        if time.perf_counter() - t0 > budget:
            break
        try:
            sc = make_scenario(prop, seed, idx, tier)
            run, viols, stats = engine.decide(sc, prop, full_digest=False)
        except HarnessError as e:
            agg.harness.append({"run": idx, "error": repr(e), "tb": traceback.format_exc()[-1500:]})
            break
        except Exception as e:
            agg.harness.append({"run": idx, "error": repr(e), "tb": traceback.format_exc()[-1500:]})
            break
        agg.c["runs"] += 1
        agg.c["gran_" + sc["gran"]] += 1
        agg.c["strat_" + sc["strategy"]["kind"]] += 1
        if run.capped:
            agg.c["step_cap_discards"] += 1
            idx += nworkers
            continue
        agg.c["steps"] += run.nsteps
        agg.c["switches"] += run.nswitch
        agg.c["mid_switches"] += run.sched.mid_switches
        agg.c["overlaps"] += run.sched.overlaps
        agg.c["faults_fired"] += len(run.fired)
        for f in run.fired:
            agg.c["fault_" + f[0]] += 1
        for k, v in stats.items():
            agg.c[k] += v
        for site, n in run.sched.sites.items():
            agg.sites["%s:%s" % site] += n
        nops = 0
        for a in sc["actors"]:
            for op in a["ops"]:
                nops += 1
                if op[0] == "nem":
                    agg.c["nem_" + op[1]] += 1
                elif op[0] == "barrier":
                    agg.c["barrier_" + (op[1] if len(op) > 1 and op[1] else "plain")] += 1
                else:
                    agg.labels[engine.op_label(op)] += 1
        agg.c["ops"] += nops
        ph = _h64([sc.get("pool"), sc["actors"], sc.get("world")])
        agg.programs.add(ph)
        if run.sched.mid_switches > 0:
            agg.distinct.add(_h64([ph, run.sched.switches]))
            agg.c["nontrivial_runs"] += 1
        if hasattr(prop, "probes"):
            for k, v in prop.probes(run).items():
                agg.c["probe_" + k] += v
        agg.clock_positions.update(world.clock_positions)
        world.clock_positions.clear()
        if len(agg.samples) < 2 and run.sched.mid_switches > 0:
            agg.samples.append({
                "origin": sc["origin"], "gran": sc["gran"], "strategy": sc["strategy"],
                "pool": sc.get("pool"), "actors": sc["actors"], "world": sc.get("world"),
                "switches": run.sched.switches[:12], "steps": run.nsteps,
            })
        for v in viols:
            sig = json.dumps(engine.signature(v))
            k = match_known(pid, v, known)
            if k is not None:
                # a listed finding: counted, one example kept, never minimised or reported as VIOLATION
                kid = k.get("id") or k.get("what", "")[:60]
                agg.c["known_raw"] += 1
                if kid not in agg.known:
                    agg.known[kid] = {"finding": k, "example": {"origin": sc["origin"], "op": v["op"], "sim_obs": v.get("sim_obs"),
                                                                 "detail": v.get("detail"), "facts": v.get("facts")}, "count": 0}
                agg.known[kid]["count"] += 1
                continue
            agg.c["violations_raw"] += 1
            if sig not in seen_sigs and len(agg.viols) < 6:
                seen_sigs.add(sig)
                sc2 = dict(sc)
                sc2["strategy"] = run.explicit
                agg.viols.append({"sig": engine.signature(v), "scenario": sc2, "violation": v})
        idx += nworkers
    agg.c["wall_worker"] = 0
    faulthandler.cancel_dump_traceback_later()
    return agg.to_wire()


def _minimize_job(args):
    pid, item, budget_n = args
    sys.path.insert(0, ROOT)
    faulthandler.enable()
    faulthandler.dump_traceback_later(900, exit=True)
    from sim import minimize as mz

    prop = load_prop(pid)
    res = mz.minimize(item["scenario"], prop, item["sig"], budget_n)
    faulthandler.cancel_dump_traceback_later()
    if res is None:
        return None
    sc, v, run, used = res
    return {"scenario": sc, "violation": v, "digest": run.digest, "executions": used,
            "switches": len(sc["strategy"].get("switches", [])) if sc["strategy"]["kind"] == "explicit" else 0}


# ------------------------------------------------------------------ known findings
def load_known():
    path = os.path.join(ROOT, "known_findings.json")
    if not os.path.exists(path):
        return []
    with open(path) as f:
        return json.load(f).get("findings", [])


def match_known(pid, v, known):
    for k in known:
        if k.get("status") != "open" or k.get("property") != pid:
            continue
        if k.get("oracle") != v["oracle"]:
            continue
        if "label" in k and k["label"] != v["label"]:
            continue
        facts = v.get("facts", {})
        if all((facts.get(a) in b) if isinstance(b, list) else (facts.get(a) == b)
               for a, b in k.get("match", {}).items()):
            return k
    return None


# ----------------------------------------------------------------------------- main
def run_check(pid, tier, seed, workers=None, budget=None):
    t_start = time.perf_counter()
    prop = load_prop(pid)
    cfg = TIERS[tier]
    budget = float(os.environ.get("VERIF_BUDGET", budget or getattr(prop, "BUDGET", {}).get(tier, cfg["budget"])))
    workers = int(os.environ.get("VERIF_WORKERS", workers or os.cpu_count() or 4))
    # quick tier: a fixed number of runs per seed (same runs whatever the machine load), the wall
    # budget is only a safety cap; thorough tier: as many runs as the wall budget allows
    max_runs = int(os.environ.get("VERIF_MAX_RUNS", getattr(prop, "RUNS", {}).get(tier, cfg["max_runs"])))
    if "VERIF_BUDGET" not in os.environ and tier == "quick" and hasattr(prop, "RUNS"):
        budget = max(budget, 150.0)
    ctx = mp.get_context("fork")
    wires = []
    harness = []
    with cf.ProcessPoolExecutor(max_workers=workers, mp_context=ctx) as ex:
        futs = [ex.submit(_worker, (pid, tier, seed, w, workers, budget, max_runs, os.environ.get("PYTHONHASHSEED")))
                for w in range(workers)]
        for f in futs:
            try:
                wires.append(f.result(timeout=budget * 3 + 180))
            except Exception as e:
                harness.append({"error": "worker died: %r" % (e,)})
    c = collections.Counter()
    sites = collections.Counter()
    labels = collections.Counter()
    distinct, programs, clock = set(), set(), set()
    viols, samples = [], []
    known_seen = {}
    for w in wires:
        for kid, kv in w.get("known", {}).items():
            if kid in known_seen:
                known_seen[kid]["count"] += kv["count"]
            else:
                known_seen[kid] = kv
        c.update(w["c"])
        sites.update(w["sites"])
        labels.update(w["labels"])
        distinct.update(w["distinct"])
        programs.update(w["programs"])
        clock.update(w["clock_set"])
        viols.extend(w["viols"])
        samples.extend(w["samples"])
        harness.extend(w["harness"])
    search_wall = time.perf_counter() - t_start

    # one representative per signature
    by_sig = {}
    for item in viols:
        by_sig.setdefault(json.dumps(item["sig"]), item)
    reported, known_hits, unreproduced = [], [], []
    known = load_known()
    if by_sig:
        items = list(by_sig.values())[:8]
        with cf.ProcessPoolExecutor(max_workers=min(len(items), workers), mp_context=ctx) as ex:
            futs = [ex.submit(_minimize_job, (pid, it, 1500 if tier == "quick" else 4000)) for it in items]
            for it, f in zip(items, futs):
                try:
                    res = f.result(timeout=1200)
                except Exception as e:
                    harness.append({"error": "minimiser died: %r" % (e,)})
                    res = None
                if res is None:
                    # could not be reproduced by the minimiser: report unminimised (still a violation)
                    res = {"scenario": it["scenario"], "violation": it["violation"], "digest": None,
                           "executions": 0, "switches": None, "unminimised": True}
                v = res["violation"]
                k = match_known(pid, v, known)
                if k is not None:
                    known_hits.append((k, res))
                    continue
                os.makedirs(os.path.join(ROOT, "replays"), exist_ok=True)
                o = res["scenario"].get("origin", {})
                path = os.path.join(ROOT, "replays", "%s-%s-%s-%s.json" % (
                    pid, o.get("seed", seed), o.get("run", "x"), hashlib.sha1(json.dumps(it["sig"]).encode()).hexdigest()[:6]))
                with open(path, "w") as fh:
                    json.dump({"property": pid, "signature": it["sig"], "scenario": res["scenario"],
                               "violation": v, "digest": res["digest"],
                               "minimiser_executions": res["executions"],
                               "unminimised": bool(res.get("unminimised"))}, fh, indent=1, sort_keys=True, default=str)
                reported.append((path, v))
    for kid, kv in sorted(known_seen.items()):
        print("KNOWN-FINDING: property=%s %s (seen %d times, e.g. run %s op %s)" % (
            pid, kv["finding"].get("what", ""), kv["count"], kv["example"]["origin"].get("run"),
            json.dumps(kv["example"]["op"])[:160]))
    for k, res in known_hits:
        if (k.get("id") or k.get("what", "")[:60]) not in known_seen:
            print("KNOWN-FINDING: property=%s %s" % (pid, k.get("what", "")))
    for path, v in reported:
        print("VIOLATION property=%s replay=%s" % (pid, path))
        print("  oracle=%s op=%s sim=%s" % (v["oracle"], v["label"], json.dumps(v.get("sim_obs"), default=str)[:300]))
        if v.get("detail"):
            print("  detail=%s" % json.dumps(v["detail"], default=str)[:400])
    for h in harness:
        print("HARNESS-ERROR: %s" % json.dumps(h)[:2000])

    wall = time.perf_counter() - t_start
    runs = c["runs"]
    probes = {k[6:]: v for k, v in c.items() if k.startswith("probe_")}
    ev = {
        "property_id": pid,
        "tier": tier,
        "seed": seed,
        "level": "exploration",
        "wall_s": round(wall, 2),
        "violations": len(reported),
        "coverage": {
            "evaluations": runs,
            "distinct_nontrivial": len(distinct),
            "rule": ("one evaluation = one simulated run: a seeded program of public-API ops on a shared pool executed by 2-4 real "
                     "threads plus a nemesis under the baton-passing scheduler, then decided by L1 (cold quiescent re-execution per "
                     "admissible register assignment) and L2 (statement model). Non-trivial = at least one pre-emption landed inside "
                     "pendulum code (not at an op boundary); distinct = distinct (program hash, exact context-switch sequence) pairs, "
                     "counted by 64-bit hashes unioned over workers."),
            "samples": samples[:3] or [{"note": "no run with a mid-op pre-emption in this batch"}],
            "distinct_programs": len(programs),
            "runs_per_hour": int(runs / max(search_wall, 1e-9) * 3600),
            "search_wall_s": round(search_wall, 2),
            "workers": workers,
            "yield_points": c["steps"],
            "context_switches": c["switches"],
            "preemptions_inside_pendulum": c["mid_switches"],
            "same_function_overlaps": c["overlaps"],
            "step_cap_discards": c["step_cap_discards"],
            "granularity_runs": {"line": c["gran_line"], "evalbreaker": c["gran_evalbreaker"]},
            "strategy_runs": {k[6:]: v for k, v in c.items() if k.startswith("strat_")},
            "nemesis_events": {k[4:]: v for k, v in c.items() if k.startswith("nem_")},
            "barriers": {k[8:]: v for k, v in c.items() if k.startswith("barrier_")},
            "faults_fired": {k[6:]: v for k, v in c.items() if k.startswith("fault_")},
            "faults_fired_total": c["faults_fired"],
            "op_mix": dict(labels.most_common(60)),
            "l1": {k: c[k] for k in ("l1_ops", "l1_evals", "l1_multi", "l1_unchecked", "l1_relaxed")},
            "l2": {k: v for k, v in c.items() if k.startswith("l2_")},
            "probes": probes,
            "top_preemption_sites": dict(sites.most_common(25)),
            "distinct_preemption_sites": len(sites),
            "simulated_clock": {"distinct_positions": len(clock),
                                "min_us": min(clock) if clock else None, "max_us": max(clock) if clock else None,
                                "span_days": round((max(clock) - min(clock)) / 86400e6, 1) if clock else 0},
            "violations_raw": c["violations_raw"],
            "known_findings_printed": [kv["finding"].get("what") for kv in known_seen.values()] + [k.get("what") for k, _ in known_hits],
            "known_finding_occurrences": {kid: kv["count"] for kid, kv in known_seen.items()},
            "harness_errors": len(harness),
            "components": {
                "real": ["src/pendulum (Python; Rust extension when importable)", "zoneinfo + tzdata", "time_machine patched clock",
                         "CPython threads (parked/released one at a time)", "dateutil / pytz where an op uses them"],
                "stub": ["file system and environment seen by pendulum.tz.local_timezone (FakeFS/FakeEnviron)", "nemesis actor"],
            },
            "backend": getattr(prop, "backend_info", lambda: "n/a")(),
        },
        "assumptions": [
            "pre-emption only at sys.settrace yield points inside src/pendulum; C code (stdlib, zoneinfo, Rust extension) runs atomically",
            "sampled schedules/faults: a clean batch is evidence, not proof",
            "line-granularity schedules are admissible under Python semantics (PyPy, free-threaded, older CPython); evalbreaker-granularity ones are realisable on CPython 3.12 with the GIL",
        ],
    }
    os.makedirs(os.path.join(ROOT, "evidence"), exist_ok=True)
    with open(os.path.join(ROOT, "evidence", "%s.json" % pid), "w") as fh:
        json.dump(ev, fh, indent=1, sort_keys=True, default=str)
    print("%s %s seed=%d: %d runs (%d/h), %d distinct non-trivial interleavings, %d violations, %d known, %.1fs" % (
        pid, tier, seed, runs, ev["coverage"]["runs_per_hour"], len(distinct), len(reported), len(known_seen) + len(known_hits), wall))
    if harness or runs == 0:
        return EXIT_HARNESS
    if reported:
        return EXIT_VIOLATION
    return EXIT_OK


def replay(path):
    sys.path.insert(0, ROOT)
    from sim import engine

    with open(path) as fh:
        rp = json.load(fh)
    prop = load_prop(rp["property"])
    run, viols, _ = engine.decide(rp["scenario"], prop)
    hit = [v for v in viols if engine.signature(v) == rp["signature"]]
    same = rp.get("digest") in (None, run.digest)
    if hit:
        print("VIOLATION property=%s replay=%s" % (rp["property"], path))
        print("  reproduced: signature=%s digest_match=%s" % (rp["signature"], same))
        print("  sim=%s" % json.dumps(hit[0].get("sim_obs"), default=str)[:400])
        print("  expected=%s" % json.dumps(hit[0].get("expected", hit[0].get("detail")), default=str)[:600])
        return EXIT_VIOLATION
    print("replay %s: violation NOT reproduced on this tree (digest_match=%s)" % (path, same))
    return EXIT_OK
