"""Seeded search over scenarios, schedules and faults across worker processes.

(VERIF_SEED, run index) -> three PRNG sub-streams (program, world, schedule) -> one run.
"""
from __future__ import annotations

import collections
import concurrent.futures as cf
import faulthandler
import hashlib
import importlib
import json
import multiprocessing as mp
import os
import random
import re
import sys
import time
import traceback

ROOT = os.path.dirname(os.path.dirname(os.path.abspath(__file__)))
EXIT_OK, EXIT_VIOLATION, EXIT_HARNESS = 0, 1, 2

TIERS = {
    # wall budget (s) for the search phase, share of evalbreaker granularity, strategies
    "quick": {"budget": 40.0, "evalbreaker": 0.2, "max_runs": 4_000_000},
    "thorough": {"budget": 600.0, "evalbreaker": 0.5, "max_runs": 400_000_000},
}

STRATEGIES_QUICK = [
    ("random", {"kind": "random", "p": 0.3}),
    ("random", {"kind": "random", "p": 0.08}),
    ("pct", {"kind": "pct", "d": 1}),
    ("pct", {"kind": "pct", "d": 2}),
    ("sticky", {"kind": "sticky", "p": 0.03, "p_store": 0.6}),
    ("reads", {"kind": "reads", "p": 0.02, "p_read": 0.2, "to_nemesis": 0.7}),
    ("reads1", {"kind": "reads1", "p": 0.01, "reads_horizon": 8}),
    ("reads1", {"kind": "reads1", "p": 0.01, "reads_horizon": 24}),
]
STRATEGIES_THOROUGH = STRATEGIES_QUICK + [
    ("random", {"kind": "random", "p": 0.7}),
    ("random", {"kind": "random", "p": 0.03}),
    ("pct", {"kind": "pct", "d": 3}),
    ("sticky", {"kind": "sticky", "p": 0.1, "p_store": 0.9}),
    ("none", {"kind": "none"}),
]


def _child(fn, arg, conn):
    try:
        conn.send(("ok", fn(arg)))
    except BaseException as e:  # noqa: BLE001 - reported to the parent as a harness error
        conn.send(("err", "%r\n%s" % (e, traceback.format_exc()[-1500:])))
    finally:
        conn.close()


def run_procs(fn, arglist, timeout):
    """one fresh forked process per task (a process's pendulum backend is fixed at import)."""
    ctx = mp.get_context("fork")
    procs = []
    for arg in arglist:
        if arg is None:
            procs.append(None)
            continue
        parent, child = ctx.Pipe(duplex=False)
        p = ctx.Process(target=_child, args=(fn, arg, child), daemon=True)
        p.start()
        child.close()
        procs.append((p, parent))
    out = []
    deadline = time.perf_counter() + timeout
    for item in procs:
        if item is None:
            out.append(("skip", None))
            continue
        p, conn = item
        try:
            if conn.poll(max(0.0, deadline - time.perf_counter())):
                out.append(conn.recv())
            else:
                out.append(("err", "timeout after %.0fs" % timeout))
        except (EOFError, OSError) as e:
            out.append(("err", "worker died: %r" % (e,)))
        p.join(5)
        if p.is_alive():
            p.kill()
    return out


def load_prop(pid):
    return importlib.import_module("props.%s" % pid.lower())


def sub_rng(seed, idx, stream):
    return random.Random("%d:%d:%s" % (seed, idx, stream))


def make_scenario(prop, seed, idx, tier):
    rp, rw, rs = (sub_rng(seed, idx, s) for s in ("program", "world", "schedule"))
    from props import gen_dt

    gen_dt.begin_run(sub_rng(seed, idx, "zones"))
    try:
        sc = prop.gen(rp, rw, tier)
        sc["wide_zones"] = gen_dt.WIDE
    finally:
        gen_dt.end_run()
    sc["prop"] = prop.ID
    sc["origin"] = {"seed": seed, "run": idx, "tier": tier}
    cfg = TIERS[tier]
    sc["gran"] = "evalbreaker" if rs.random() < cfg["evalbreaker"] else "line"
    strats = STRATEGIES_QUICK if tier == "quick" else STRATEGIES_THOROUGH
    name, st = strats[rs.randrange(len(strats))]
    st = dict(st)
    if st["kind"] == "pct":
        hz = sc.pop("horizon", 300)
        if sc["gran"] == "evalbreaker":
            hz = max(10, hz // 3)
        st["horizon"] = max(4, int(hz * rs.choice((0.25, 0.5, 1.0, 1.5))))
    sc.pop("horizon", None)
    sc["strategy"] = st
    sc["sched_seed"] = rs.randrange(1 << 62)
    return sc


_ZONE_RE = re.compile(r'"([A-Za-z][A-Za-z0-9_+/\-]{2,40})"')


def _h64(obj):
    return int.from_bytes(hashlib.blake2b(json.dumps(obj, sort_keys=True, default=str).encode(), digest_size=8).digest(), "big")


class Agg:
    def __init__(self):
        self.c = collections.Counter()
        self.sites = collections.Counter()
        self.distinct = set()
        self.programs = set()
        self.viols = []
        self.samples = []
        self.harness = []
        self.clock_positions = set()
        self.labels = collections.Counter()
        self.zones = set()
        self.known = {}
        self.solo = {}
        self.backend = None

    def to_wire(self):
        return {
            "c": dict(self.c), "sites": dict(self.sites.most_common(400)),
            "distinct": list(self.distinct), "programs": list(self.programs),
            "viols": self.viols, "samples": self.samples, "harness": self.harness,
            "clock": [min(self.clock_positions), max(self.clock_positions), len(self.clock_positions)] if self.clock_positions else None,
            "clock_set": list(self.clock_positions)[:200000],
            "labels": dict(self.labels),
            "zones": sorted(self.zones),
            "known": self.known,
            "solo": self.solo,
            "backend": self.backend,
        }


def select_backend(backend, ext_path):
    """must run before pendulum is imported in this process."""
    if backend is None:
        return
    if "pendulum" in sys.modules:
        import pendulum.helpers as h

        have = "ext" if h.precise_diff.__module__ == "pendulum._pendulum" else "py"
        if have != backend:
            raise RuntimeError("backend %s requested but pendulum already imported with %s" % (backend, have))
        return
    if backend == "py":
        os.environ["PENDULUM_EXTENSIONS"] = "0"
    else:
        os.environ["PENDULUM_EXTENSIONS"] = "1"
        if ext_path and ROOT in os.path.realpath(ext_path):
            from tools import build_ext

            build_ext.inject(ext_path)


def _worker(args):
    pid, tier, seed, widx, nworkers, budget, max_runs, hashseed, backend, ext_path, start, stride = args
    sys.path.insert(0, ROOT)
    faulthandler.enable()
    faulthandler.dump_traceback_later(budget * 3 + 120, exit=True)
    select_backend(backend, ext_path)
    from sim import engine
    from sim.sched import HarnessError
    from sim.world import get_world

    prop = load_prop(pid)
    world = get_world()
    # pristine copy of this process for the cold-process oracle: forked before the first run
    from sim.cold import ColdServer

    cold = ColdServer()
    cold.start()
    cold_every = int(os.environ.get("VERIF_COLD_EVERY", getattr(prop, "COLD_EVERY", {}).get(tier, 4 if tier == "quick" else 2)))
    agg = Agg()
    known = load_known()
    t0 = time.perf_counter()
    idx = start
    nworkers = stride
    seen_sigs = set()
    cross = bool(getattr(prop, "CROSS_BACKEND", False)) and backend is not None
    import pendulum.helpers as _h

    agg.backend = "ext" if _h.precise_diff.__module__ == "pendulum._pendulum" else "py"
    while idx < max_runs:
        if time.perf_counter() - t0 > budget:
            break
        try:
            sc = make_scenario(prop, seed, idx, tier)
            use_cold = cold_every > 0 and (idx // stride) % cold_every == 0
            sc["cold"] = bool(use_cold)
            run, viols, stats = engine.decide(sc, prop, full_digest=False, cold=cold if use_cold else None)
        except HarnessError as e:
            agg.harness.append({"run": idx, "error": repr(e), "tb": traceback.format_exc()[-1500:]})
            break
        except Exception as e:
            agg.harness.append({"run": idx, "error": repr(e), "tb": traceback.format_exc()[-1500:]})
            break
        agg.c["runs"] += 1
        agg.c["backend_" + agg.backend] += 1
        if cross:
            agg.solo[idx] = engine.solo_digest(sc)
        agg.c["gran_" + sc["gran"]] += 1
        if sc.get("wide_zones"):
            agg.c["wide_zone_runs"] += 1
        agg.zones.update(_ZONE_RE.findall(json.dumps([sc.get("pool"), sc["actors"], sc.get("world")])))
        agg.c["strat_" + sc["strategy"]["kind"]] += 1
        if run.capped:
            agg.c["step_cap_discards"] += 1
            idx += nworkers
            continue
        agg.c["steps"] += run.nsteps
        agg.c["switches"] += run.nswitch
        agg.c["mid_switches"] += run.sched.mid_switches
        agg.c["overlaps"] += run.sched.overlaps
        agg.c["faults_fired"] += len(run.fired)
        for f in run.fired:
            agg.c["fault_" + f[0]] += 1
        for k, v in stats.items():
            agg.c[k] += v
        for site, n in run.sched.sites.items():
            agg.sites["%s:%s" % site] += n
        nops = 0
        for a in sc["actors"]:
            for op in a["ops"]:
                nops += 1
                if op[0] == "nem":
                    agg.c["nem_" + op[1]] += 1
                elif op[0] == "barrier":
                    agg.c["barrier_" + (op[1] if len(op) > 1 and op[1] else "plain")] += 1
                else:
                    agg.labels[engine.op_label(op)] += 1
        agg.c["ops"] += nops
        ph = _h64([sc.get("pool"), sc["actors"], sc.get("world")])
        agg.programs.add(ph)
        if run.sched.mid_switches > 0:
            agg.distinct.add(_h64([ph, run.sched.switches]))
            agg.c["nontrivial_runs"] += 1
        if hasattr(prop, "probes"):
            for k, v in prop.probes(run).items():
                agg.c["probe_" + k] += v
        agg.clock_positions.update(world.clock_positions)
        world.clock_positions.clear()
        if len(agg.samples) < 2 and run.sched.mid_switches > 0:
            agg.samples.append({
                "origin": sc["origin"], "gran": sc["gran"], "strategy": sc["strategy"],
                "pool": sc.get("pool"), "actors": sc["actors"], "world": sc.get("world"),
                "switches": run.sched.switches[:12], "steps": run.nsteps,
            })
        for v in viols:
            sig = json.dumps(engine.signature(v))
            k = match_known(pid, v, known)
            if k is not None:
                # a listed finding: counted, one example kept, never minimised or reported as VIOLATION
                kid = k.get("id") or k.get("what", "")[:60]
                agg.c["known_raw"] += 1
                if kid not in agg.known:
                    agg.known[kid] = {"finding": k, "example": {"origin": sc["origin"], "op": v["op"], "sim_obs": v.get("sim_obs"),
                                                                 "detail": v.get("detail"), "facts": v.get("facts")}, "count": 0}
                agg.known[kid]["count"] += 1
                continue
            agg.c["violations_raw"] += 1
            if sig not in seen_sigs and len(agg.viols) < 6:
                seen_sigs.add(sig)
                sc2 = dict(sc)
                sc2["strategy"] = run.explicit
                sc2["backend"] = agg.backend
                agg.viols.append({"sig": engine.signature(v), "scenario": sc2, "violation": v})
        idx += nworkers
    agg.c["wall_worker"] = 0
    from sim import coop

    agg.c["coop_locks_created"] += coop.STATS["coop_locks_created"]
    agg.c["coop_contended_acquires"] += coop.STATS["contended_acquires"]
    cold.stop()
    faulthandler.cancel_dump_traceback_later()
    return agg.to_wire()


def _named_zones(cands):
    import zoneinfo

    zoneinfo.reset_tzpath(to=[])
    av = zoneinfo.available_timezones()
    return sorted(z for z in cands if z in av)


def _meta_job(pid):
    sys.path.insert(0, ROOT)
    prop = load_prop(pid)
    return {k: getattr(prop, k) for k in ("BUDGET", "RUNS", "CROSS_BACKEND", "USES_EXTENSION") if hasattr(prop, k)}


def _solo_idx_job(args):
    """solo observations of run ``idx`` under one backend (+ the scenario and its XB facts)."""
    pid, seed, idx, tier, backend, ext_path = args
    sys.path.insert(0, ROOT)
    select_backend(backend, ext_path)
    from sim import engine

    prop = load_prop(pid)
    sc = make_scenario(prop, seed, idx, tier)
    sc["strategy"] = {"kind": "none"}
    obs = engine.solo_obs(sc)
    return {"obs": obs, "scenario": sc, "has_facts": hasattr(prop, "xb_facts"),
            "facts": prop.xb_facts(sc, None) if hasattr(prop, "xb_facts") else {}}


def _solo_job(args):
    pid, sc, backend, ext_path = args
    sys.path.insert(0, ROOT)
    select_backend(backend, ext_path)
    from sim import engine

    return engine.solo_obs(sc)


def cross_backend_diff(pid, sc, ext_path):
    (sa, a), (sb, b) = run_procs(_solo_job, [(pid, sc, "ext", ext_path), (pid, sc, "py", ext_path)], timeout=300)
    if sa != "ok" or sb != "ok":
        return [{"error": [a, b]}]
    return [{"op_index": i, "ext": x, "py": y} for i, (x, y) in enumerate(zip(a, b)) if x != y][:4]


def _minimize_job(args):
    pid, item, budget_n, ext_path = args
    sys.path.insert(0, ROOT)
    faulthandler.enable()
    faulthandler.dump_traceback_later(900, exit=True)
    select_backend(item["scenario"].get("backend"), ext_path)
    from sim import minimize as mz

    prop = load_prop(pid)
    cold = None
    if item["scenario"].get("cold"):
        from sim.cold import ColdServer
        from sim.world import get_world

        get_world()
        cold = ColdServer()
        cold.start()
    res = mz.minimize(item["scenario"], prop, item["sig"], budget_n, cold=cold)
    if cold is not None:
        cold.stop()
    faulthandler.cancel_dump_traceback_later()
    if res is None:
        return None
    sc, v, run, used = res
    return {"scenario": sc, "violation": v, "digest": run.digest, "executions": used,
            "switches": len(sc["strategy"].get("switches", [])) if sc["strategy"]["kind"] == "explicit" else 0}


# ------------------------------------------------------------------ known findings
def load_known():
    path = os.path.join(ROOT, "known_findings.json")
    if not os.path.exists(path):
        return []
    with open(path) as f:
        return json.load(f).get("findings", [])


def match_known(pid, v, known):
    for k in known:
        if k.get("status") != "open" or k.get("property") != pid:
            continue
        if k.get("oracle") != v["oracle"]:
            continue
        if "label" in k and k["label"] != v["label"]:
            continue
        facts = v.get("facts", {})
        if all((facts.get(a) in b) if isinstance(b, list) else (facts.get(a) == b)
               for a, b in k.get("match", {}).items()):
            return k
    return None


# ----------------------------------------------------------------------------- main
def run_check(pid, tier, seed, workers=None, budget=None):
    t_start = time.perf_counter()
    # the parent never imports pendulum (a process's helper backend is fixed at import time)
    st, meta = run_procs(_meta_job, [pid], timeout=120)[0]
    if st != "ok":
        print("HARNESS-ERROR: cannot load property module: %s" % (meta,))
        return EXIT_HARNESS
    cfg = TIERS[tier]
    budget = float(os.environ.get("VERIF_BUDGET", budget or meta.get("BUDGET", {}).get(tier, cfg["budget"])))
    workers = int(os.environ.get("VERIF_WORKERS", workers or os.cpu_count() or 4))
    # quick tier: a fixed number of runs per seed (same runs whatever the machine load), the wall
    # budget is only a safety cap; thorough tier: as many runs as the wall budget allows
    max_runs = int(os.environ.get("VERIF_MAX_RUNS", meta.get("RUNS", {}).get(tier, cfg["max_runs"])))
    if "VERIF_BUDGET" not in os.environ and tier == "quick" and "RUNS" in meta:
        budget = max(budget, 150.0)
    ctx = mp.get_context("fork")
    wires = []
    harness = []
    # Every property runs against the compiled helpers *rebuilt from /repo's current Rust sources* (never
    # against whatever _pendulum*.so happens to lie in /repo/src: that file is git-ignored and may predate
    # the sources).  Cross-backend properties pair workers 2j (compiled) / 2j+1 (pure Python) on the same
    # run indices; the others give every fourth run index to the pure-Python helpers.
    from tools import build_ext

    ext_path = build_ext.ensure(build=True)
    ext_reason = build_ext.reason
    if ext_path and meta.get("CROSS_BACKEND") and workers >= 2:
        half = workers // 2
        plan = [("ext" if w % 2 == 0 else "py", w // 2, half) for w in range(half * 2)]
    elif ext_path:
        plan = [("py" if w % 4 == 3 else "ext", w, workers) for w in range(workers)]
    else:
        plan = [("py", w, workers) for w in range(workers)]
    res = run_procs(_worker, [(pid, tier, seed, w, workers, budget, max_runs, os.environ.get("PYTHONHASHSEED"),
                               be, ext_path, start, stride) for w, (be, start, stride) in enumerate(plan)],
                    timeout=budget * 3 + 180)
    for st, val in res:
        if st == "ok":
            wires.append(val)
        else:
            harness.append({"error": "worker failed: %s" % (val,)})
    c = collections.Counter()
    sites = collections.Counter()
    labels = collections.Counter()
    zones_seen = set()
    distinct, programs, clock = set(), set(), set()
    viols, samples = [], []
    known_seen = {}
    for w in wires:
        for kid, kv in w.get("known", {}).items():
            if kid in known_seen:
                known_seen[kid]["count"] += kv["count"]
            else:
                known_seen[kid] = kv
        c.update(w["c"])
        sites.update(w["sites"])
        labels.update(w["labels"])
        zones_seen.update(w.get("zones", ()))
        distinct.update(w["distinct"])
        programs.update(w["programs"])
        clock.update(w["clock_set"])
        viols.extend(w["viols"])
        samples.extend(w["samples"])
        harness.extend(w["harness"])
    search_wall = time.perf_counter() - t_start
    # cross-backend differential: the same run index, executed un-pre-empted by both helper
    # backends, must give identical observations
    solo = {}
    xb_known = {}
    xb_examined = 0
    cross_compared = 0
    for w in wires:
        for idx, dg in w.get("solo", {}).items():
            solo.setdefault(int(idx), {})[w["backend"]] = dg
    for idx, d in sorted(solo.items()):
        if len(d) == 2:
            cross_compared += 1
            if d["ext"][0] != d["py"][0] and xb_examined < 12:
                xb_examined += 1
                (sa, ra), (sb, rb) = run_procs(_solo_idx_job, [(pid, seed, idx, tier, "ext", ext_path),
                                                              (pid, seed, idx, tier, "py", ext_path)], timeout=300)
                if sa != "ok" or sb != "ok":
                    harness.append({"error": "cross-backend job failed: %s %s" % (ra, rb)})
                    continue
                diff = [{"op_index": i, "ext": x, "py": y} for i, (x, y) in enumerate(zip(ra["obs"], rb["obs"])) if x != y][:4]
                sc = ra["scenario"]
                v = {"oracle": "XB", "label": "backend-differential", "op": None, "sim_obs": None,
                     "detail": {"run": idx, "first_differences(ext,py)": diff}, "facts": ra["facts"]}
                k = match_known(pid, v, load_known())
                if k is not None:
                    kid = k.get("id") or k.get("what", "")[:60]
                    xb_known.setdefault(kid, {"finding": k, "count": 0, "example": {"origin": sc["origin"], "op": "solo differential", "detail": diff[:1]}})
                    xb_known[kid]["count"] += 1
                    continue
                if len([x for x in viols if x.get("no_minimise")]) < 3:
                    viols.append({"sig": ["XB", "backend-differential"], "scenario": sc, "no_minimise": True, "violation": v})
    # one representative per signature
    by_sig = {}
    for item in viols:
        by_sig.setdefault(json.dumps(item["sig"]), item)
    reported, known_hits, unreproduced = [], [], []
    known = load_known()
    if by_sig:
        items = list(by_sig.values())[:8]
        # one fresh process per job: the backend is fixed at import time
        jobs = run_procs(_minimize_job, [None if it.get("no_minimise") else (pid, it, 1500 if tier == "quick" else 4000, ext_path)
                                         for it in items], timeout=1200)
        if True:
            for it, (st, val) in zip(items, jobs):
                res = val if st == "ok" else None
                if st == "err":
                    harness.append({"error": "minimiser failed: %s" % (val,)})
                if res is None:
                    # could not be reproduced by the minimiser: report unminimised (still a violation)
                    res = {"scenario": it["scenario"], "violation": it["violation"], "digest": None,
                           "executions": 0, "switches": None, "unminimised": True}
                v = res["violation"]
                k = match_known(pid, v, known)
                if k is not None:
                    known_hits.append((k, res))
                    continue
                os.makedirs(os.path.join(ROOT, "replays"), exist_ok=True)
                o = res["scenario"].get("origin", {})
                path = os.path.join(ROOT, "replays", "%s-%s-%s-%s.json" % (
                    pid, o.get("seed", seed), o.get("run", "x"), hashlib.sha1(json.dumps(it["sig"]).encode()).hexdigest()[:6]))
                with open(path, "w") as fh:
                    json.dump({"property": pid, "signature": it["sig"], "scenario": res["scenario"],
                               "violation": v, "digest": res["digest"],
                               "minimiser_executions": res["executions"],
                               "unminimised": bool(res.get("unminimised"))}, fh, indent=1, sort_keys=True, default=str)
                reported.append((path, v))
    for kid, kv in xb_known.items():
        if kid in known_seen:
            known_seen[kid]["count"] += kv["count"]
        else:
            known_seen[kid] = kv
    for kid, kv in sorted(known_seen.items()):
        print("KNOWN-FINDING: property=%s %s (seen %d times, e.g. run %s op %s)" % (
            pid, kv["finding"].get("what", ""), kv["count"], kv["example"]["origin"].get("run"),
            json.dumps(kv["example"]["op"])[:160]))
    for k, res in known_hits:
        if (k.get("id") or k.get("what", "")[:60]) not in known_seen:
            print("KNOWN-FINDING: property=%s %s" % (pid, k.get("what", "")))
    for path, v in reported:
        print("VIOLATION property=%s replay=%s" % (pid, path))
        print("  oracle=%s op=%s sim=%s" % (v["oracle"], v["label"], json.dumps(v.get("sim_obs"), default=str)[:300]))
        if v.get("detail"):
            print("  detail=%s" % json.dumps(v["detail"], default=str)[:400])
    for h in harness:
        print("HARNESS-ERROR: %s" % json.dumps(h)[:2000])

    wall = time.perf_counter() - t_start
    runs = c["runs"]
    probes = {k[6:]: v for k, v in c.items() if k.startswith("probe_")}
    ev = {
        "property_id": pid,
        "tier": tier,
        "seed": seed,
        "level": "exploration",
        "wall_s": round(wall, 2),
        "violations": len(reported),
        "coverage": {
            "evaluations": runs,
            "distinct_nontrivial": len(distinct),
            "rule": ("one evaluation = one simulated run: a seeded program of public-API ops on a shared pool executed by 2-4 real "
                     "threads plus a nemesis under the baton-passing scheduler, then decided by L1 (cold quiescent re-execution per "
                     "admissible register assignment) and L2 (statement model). Non-trivial = at least one pre-emption landed inside "
                     "pendulum code (not at an op boundary); distinct = distinct (program hash, exact context-switch sequence) pairs, "
                     "counted by 64-bit hashes unioned over workers."),
            "samples": samples[:3] or [{"note": "no run with a mid-op pre-emption in this batch"}],
            "distinct_programs": len(programs),
            "runs_per_hour": int(runs / max(search_wall, 1e-9) * 3600),
            "search_wall_s": round(search_wall, 2),
            "workers": workers,
            "yield_points": c["steps"],
            "context_switches": c["switches"],
            "preemptions_inside_pendulum": c["mid_switches"],
            "same_function_overlaps": c["overlaps"],
            "step_cap_discards": c["step_cap_discards"],
            "granularity_runs": {"line": c["gran_line"], "evalbreaker": c["gran_evalbreaker"]},
            "zone_swarm": {"wide_runs (zone lists re-drawn from every tzdata name, transitions back to 1900)": c["wide_zone_runs"],
                           "distinct_named_zones_in_scenarios": len(_named_zones(zones_seen))},
            "strategy_runs": {k[6:]: v for k, v in c.items() if k.startswith("strat_")},
            "nemesis_events": {k[4:]: v for k, v in c.items() if k.startswith("nem_")},
            "barriers": {k[8:]: v for k, v in c.items() if k.startswith("barrier_")},
            "faults_fired": {k[6:]: v for k, v in c.items() if k.startswith("fault_")},
            "faults_fired_total": c["faults_fired"],
            "op_mix": dict(labels.most_common(60)),
            "l1": {k: c[k] for k in ("l1_ops", "l1_evals", "l1_multi", "l1_unchecked", "l1_relaxed")},
            "cooperative_locks_in_code_under_test": {"created": c["coop_locks_created"], "contended_acquires_resolved_by_yielding": c["coop_contended_acquires"]},
            "l1_cold_process": {"client_programs_re_executed_in_pristine_fork": c["cold_clients"], "ops_compared": c["cold_ops"]},
            "l2": {k: v for k, v in c.items() if k.startswith("l2_")},
            "probes": probes,
            "top_preemption_sites": dict(sites.most_common(25)),
            "distinct_preemption_sites": len(sites),
            "simulated_clock": {"distinct_positions": len(clock),
                                "min_us": min(clock) if clock else None, "max_us": max(clock) if clock else None,
                                "span_days": round((max(clock) - min(clock)) / 86400e6, 1) if clock else 0},
            "violations_raw": c["violations_raw"],
            "known_findings_printed": [kv["finding"].get("what") for kv in known_seen.values()] + [k.get("what") for k, _ in known_hits],
            "known_finding_occurrences": {kid: kv["count"] for kid, kv in known_seen.items()},
            "harness_errors": len(harness),
            "components": {
                "real": ["src/pendulum (Python; Rust extension when importable)", "zoneinfo + tzdata", "time_machine patched clock",
                         "CPython threads (parked/released one at a time)", "dateutil / pytz where an op uses them"],
                "stub": ["file system and environment seen by pendulum.tz.local_timezone (FakeFS/FakeEnviron)", "nemesis actor"],
            },
            "cross_backend_mismatching_runs": sum(1 for d in solo.values() if len(d) == 2 and d["ext"][0] != d["py"][0]),
            "backends": {"runs": {k[8:]: v for k, v in c.items() if k.startswith("backend_")},
                         "extension": ext_path, "extension_source": ext_reason,
                         "cross_backend_runs_compared": cross_compared},
        },
        "assumptions": [
            "pre-emption only at sys.settrace yield points inside src/pendulum; C code (stdlib, zoneinfo, Rust extension) runs atomically",
            "sampled schedules/faults: a clean batch is evidence, not proof",
            "line-granularity schedules are admissible under Python semantics (PyPy, free-threaded, older CPython); evalbreaker-granularity ones are realisable on CPython 3.12 with the GIL",
        ],
    }
    # self-tests that run the checks on a deliberately broken tree redirect their evidence
    evdir = os.environ.get("VERIF_EVIDENCE_DIR") or os.path.join(ROOT, "evidence")
    os.makedirs(evdir, exist_ok=True)
    with open(os.path.join(evdir, "%s.json" % pid), "w") as fh:
        json.dump(ev, fh, indent=1, sort_keys=True, default=str)
    print("%s %s seed=%d: %d runs (%d/h), %d distinct non-trivial interleavings, %d violations, %d known, %.1fs" % (
        pid, tier, seed, runs, ev["coverage"]["runs_per_hour"], len(distinct), len(reported), len(known_seen) + len(known_hits), wall))
    if reported:
        return EXIT_VIOLATION       # a reproduced violation stands even if some worker also failed
    if harness or runs == 0:
        return EXIT_HARNESS
    return EXIT_OK


def replay(path):
    sys.path.insert(0, ROOT)
    with open(path) as fh:
        rp = json.load(fh)
    if rp["signature"][0] == "XB":
        # both backends in fresh processes; this process must not have imported pendulum
        from tools import build_ext

        ext = build_ext.ensure(build=True)
        if not ext:
            print("HARNESS-ERROR: no compiled backend available for the differential: %s" % build_ext.reason)
            return EXIT_HARNESS
        (sa, a), (sb, b) = run_procs(_solo_job, [(rp["property"], rp["scenario"], "ext", ext),
                                                 (rp["property"], rp["scenario"], "py", ext)], timeout=300)
        if sa != "ok" or sb != "ok":
            print("HARNESS-ERROR: differential replay failed: %s | %s" % (a, b))
            return EXIT_HARNESS
        diff = [{"op_index": i, "ext": x, "py": y} for i, (x, y) in enumerate(zip(a, b)) if x != y][:4]
        if diff:
            print("VIOLATION property=%s replay=%s" % (rp["property"], path))
            print("  reproduced: compiled and pure-Python backends disagree: %s" % json.dumps(diff, default=str)[:700])
            return EXIT_VIOLATION
        print("replay %s: backends agree on this tree" % path)
        return EXIT_OK
    be = rp["scenario"].get("backend")
    if be:
        from tools import build_ext

        select_backend(be, build_ext.ensure(build=True) if be == "ext" else None)
    from sim import engine

    prop = load_prop(rp["property"])
    cold = None
    if rp["scenario"].get("cold"):
        from sim.cold import ColdServer
        from sim.world import get_world

        get_world()
        cold = ColdServer()
        cold.start()
    run, viols, _ = engine.decide(rp["scenario"], prop, cold=cold)
    if cold is not None:
        cold.stop()
    hit = [v for v in viols if engine.signature(v) == rp["signature"]]
    same = rp.get("digest") in (None, run.digest)
    if hit:
        print("VIOLATION property=%s replay=%s" % (rp["property"], path))
        print("  reproduced: signature=%s digest_match=%s" % (rp["signature"], same))
        print("  sim=%s" % json.dumps(hit[0].get("sim_obs"), default=str)[:400])
        print("  expected=%s" % json.dumps(hit[0].get("expected", hit[0].get("detail")), default=str)[:600])
        return EXIT_VIOLATION
    print("replay %s: violation NOT reproduced on this tree (digest_match=%s)" % (path, same))
    rc = EXIT_OK
    known = load_known()
    for v in viols:
        k = match_known(rp["property"], v, known)
        print("  a different violation occurs: signature=%s %s" % (engine.signature(v), "known finding " + str(k.get("id")) if k else "NOT a known finding"))
        if k is None:
            print("VIOLATION property=%s replay=%s" % (rp["property"], path))
            rc = EXIT_VIOLATION
    return rc
