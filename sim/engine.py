"""Run one scenario under the simulated scheduler, then decide it.

L1 (deciding oracle): every client op is re-executed alone, un-pre-empted, in a
freshly reset (cold) world, once per admissible assignment of the registers the
nemesis writes; the simulated observation must equal one of them.
L2: the property module's statement-level reference model, evaluated on the
simulated observations (pure data).
"""
from __future__ import annotations

import calendar
import datetime as _dt
import gc
import hashlib
import itertools
import json
import random
import sys
import threading

import pendulum
from pendulum.tz.timezone import Timezone

from .obs import observe, raw_fold
from .ops import Env, Skip, build, execute, op_label
from .sched import HarnessError, Scheduler
from .world import ZONE_HISTORY, World, get_world, zone_replay, zone_replay_end

_ltz = sys.modules["pendulum.tz.local_timezone"]

MAX_ASSIGNMENTS = 24


class Run:
    __slots__ = ("sc", "recs", "regw", "fslog", "fired", "sched", "digest", "capped",
                 "nsteps", "nswitch", "mid_switches", "overlaps", "sites", "explicit", "pool_obs",
                 "pool_fold", "results", "barriers", "matched", "relaxed_ops", "pool_zlog", "zobjs")

    def __init__(self):
        self.recs = {}
        self.results = {}
        self.barriers = []
        self.regw = []
        self.fslog = []
        self.fired = []


_MISSING = object()


def _mock_token():
    """token (world.ZONE_HISTORY) of the zone object currently set as mock local zone, if a named one"""
    m = getattr(_ltz, "_mock_local_timezone", _MISSING)
    if m is _MISSING or not isinstance(m, (_dt.tzinfo, type(None))):
        # the override is not kept where it used to be (renamed / re-typed global): the object the
        # harness or the nemesis handed to the setter last
        m = get_world()._mock_obj
    return None if m is None else ZONE_HISTORY["tokens"].get(id(m))


def mock_tokens(run, rec):
    """zone key -> tokens of the objects that were the mock local zone under that key at the op's
    invoke or during it (same selection as reg_candidates)"""
    inv, ret = rec["inv"], rec["ret"]
    writes = [w for w in run.regw if w[2] == "mock_tz"]
    base = None
    for w in writes:
        if w[1] <= inv:
            base = w
    out = {}
    for w in writes:
        if w is base or (w[0] < ret and w[1] > inv):
            if isinstance(w[3], str) and len(w) > 4 and w[4] is not None:
                out.setdefault(w[3], [])
                if w[4] not in out[w[3]]:
                    out[w[3]].append(w[4])
    return out


def _nemesis(world: World, sched, op, rec, run):
    kind = op[1]
    val = op[2] if len(op) > 2 else None
    if kind == "clock":
        world.set_clock(val)
        rec["reg"] = ("clock", val)
    elif kind == "locale":
        # an unknown name is a *refused* write (the application's "try the user's language, else
        # keep the default"): ValueError, and the register keeps its value
        try:
            pendulum.set_locale(val)
        except ValueError:
            run.fired.append(("refused_write", kind, "N", None))
        else:
            rec["reg"] = ("locale", val)
    elif kind == "week_start":
        try:
            pendulum.week_starts_at(pendulum.WeekDay(val) if 0 <= val <= 6 else val)
        except ValueError:
            run.fired.append(("refused_write", kind, "N", None))
        else:
            rec["reg"] = ("week_start", val)
    elif kind == "week_end":
        try:
            pendulum.week_ends_at(pendulum.WeekDay(val) if 0 <= val <= 6 else val)
        except ValueError:
            run.fired.append(("refused_write", kind, "N", None))
        else:
            rec["reg"] = ("week_end", val)
    elif kind == "mock_tz":
        tz = None if val is None else World.zone(val)
        pendulum.set_local_timezone(tz)
        world._mock_obj = tz
        rec["reg"] = ("mock_tz", val)
        rec["reg_tok"] = _mock_token()
    elif kind == "mock_ctx_enter":
        # the other public way to set the override: `with pendulum.test_local_timezone(tz):` held open
        # by the nemesis while the clients run; leaving the block is a second write (None)
        tz = World.zone(val)
        cm = pendulum.test_local_timezone(tz)
        cm.__enter__()
        world._mock_cm = cm
        world._mock_obj = tz
        rec["reg"] = ("mock_tz", val)
        rec["reg_tok"] = _mock_token()
    elif kind == "mock_ctx_exit":
        cm = getattr(world, "_mock_cm", None)
        if cm is not None:
            world._mock_cm = None
            cm.__exit__(None, None, None)
            world._mock_obj = None
            rec["reg"] = ("mock_tz", None)
            rec["reg_tok"] = _mock_token()
    elif kind == "cal_fwd":
        calendar.setfirstweekday(val)
        rec["reg"] = ("cal_fwd", val)
    elif kind == "clear_zone_cache":
        Timezone.clear_cache()
    elif kind == "fs_put":
        world.fs.put(op[2], op[3])
        rec["fs"] = True
    elif kind == "env":
        if op[3] is None:
            world.env.pop(op[2], None)
        else:
            world.env[op[2]] = op[3]
        rec["fs"] = True
    elif kind == "arm":
        world.fs.arm(op[2])
    elif kind == "noop":
        pass
    else:
        raise HarnessError("unknown nemesis op %r" % (op,))
    return None


def fs_snapshot(world: World):
    return (dict(world.fs.nodes), dict(world.env))


def simulate(sc, full_digest=True) -> Run:
    world = get_world()
    world.reset(sc.get("world", {}))
    run = Run()
    run.sc = sc
    rng = random.Random(sc.get("sched_seed", 0))
    sched = Scheduler(sc["strategy"], rng, gran=sc.get("gran", "line"),
                      step_cap=sc.get("step_cap", 20000), full_digest=full_digest)
    run.sched = sched
    gc.disable()
    try:
        run.pool_zlog = ZONE_HISTORY["log"][threading.get_ident()] = []
        try:
            pool = [build(s, None) for s in sc.get("pool", [])]
        finally:
            ZONE_HISTORY["log"].pop(threading.get_ident(), None)
        # only for pools of values without lazily filled slots (DateTime/Date): the scenario asks for it
        if sc.get("observe_pool") == "fresh-copy":
            # observe a second instance of every pool value: the shared one stays untouched
            # (its lazily filled slots must be first read by the client threads)
            run.pool_obs = [observe(build(s, None)) for s in sc.get("pool", [])]
        else:
            run.pool_obs = [observe(v) for v in pool] if sc.get("observe_pool") else None
        run.pool_fold = [raw_fold(v) for v in pool]
        run.regw = [(0, 0, r, v) for r, v in world.regs().items()]
        run.regw = [w + (_mock_token(),) if w[2] == "mock_tz" else w for w in run.regw]
        run.fslog = [(0, 0, fs_snapshot(world))]
        inflight = {}

        def on_fire(f):
            cur = sched.current
            rec = inflight.get(cur.name) if cur is not None else None
            run.fired.append((f["kind"], f["path"], cur.name if cur else None, rec["i"] if rec else None))
            if rec is not None:
                rec.setdefault("faults", []).append(f["kind"])

        world.fs.on_fire = on_fire

        def barrier_action(kind):
            def act():
                run.barriers.append((sched.next_seq(), kind))
                if "restart" in kind:
                    world.drop_caches()       # what a new process would not have
                if "heal" in kind:
                    world.fs.faults.clear()   # faults stop here
            return act

        def make(actor):
            name = actor["name"]
            ops = actor["ops"]

            def fn(a):
                results = []
                run.results[name] = results
                env = Env(pool, results)
                for i, op in enumerate(ops):
                    f = op[0]
                    if f == "barrier":
                        sched.barrier(a, barrier_action(op[1] if len(op) > 1 and op[1] else "plain"))
                        results.append(None)
                        continue
                    sched.op_yield(a)
                    rec = {"actor": name, "i": i, "inv": sched.next_seq()}
                    inflight[name] = rec
                    if f == "nem":
                        res = _nemesis(world, sched, op, rec, run)
                        rec["ret"] = sched.next_seq()
                        if "reg" in rec:
                            w = (rec["inv"], rec["ret"], rec["reg"][0], rec["reg"][1])
                            run.regw.append(w + (rec["reg_tok"],) if "reg_tok" in rec else w)
                        if rec.get("fs"):
                            run.fslog.append((rec["inv"], rec["ret"], fs_snapshot(world)))
                        rec["obs"] = None
                        results.append(None)
                    else:
                        zl = ZONE_HISTORY["log"][threading.get_ident()] = []
                        try:
                            res = execute(op, env)
                        except Skip:
                            res = Skip
                        except HarnessError:
                            raise
                        except Exception as e:
                            res = e
                        finally:
                            ZONE_HISTORY["log"].pop(threading.get_ident(), None)
                        if zl:
                            rec["zlog"] = zl
                        results.append(res)
                        if res is Skip:
                            rec["obs"] = ["SKIP"]
                        else:
                            rec["fold"] = raw_fold(res)
                            try:
                                rec["obs"] = observe(res)
                            except Exception as e:
                                rec["obs"] = ["OBS-EXC", type(e).__name__, str(e)[:200]]
                        rec["ret"] = sched.next_seq()
                    inflight.pop(name, None)
                    run.recs[(name, i)] = rec

            return fn

        for actor in sc["actors"]:
            sched.add_actor(actor["name"], make(actor))
        sched.run(timeout=sc.get("timeout", 60.0))
    finally:
        world.fs.on_fire = None
        gc.enable()
    run.zobjs = list(ZONE_HISTORY["objs"])       # token -> zone object of this run (survives the resets of the oracles)
    run.capped = sched.capped
    run.nsteps = sched.nsteps
    run.nswitch = sched.nswitch
    run.explicit = sched.explicit_schedule()
    h = hashlib.sha256()
    h.update(b"%d:%d:%d;" % (sched.crc, sched.nsteps, sched.nswitch))
    for key in sorted(run.recs):
        r = run.recs[key]
        h.update(json.dumps([key, r["inv"], r["ret"], r["obs"]], sort_keys=True, default=str).encode())
    run.digest = h.hexdigest()
    return run


# ----------------------------------------------------------------------- candidates
def reg_candidates(run: Run, rec):
    """register -> list of admissible values for an op with interval [inv, ret]."""
    inv, ret = rec["inv"], rec["ret"]
    out = {}
    for reg in World.REGS:
        writes = [w for w in run.regw if w[2] == reg]
        base = None
        for w in writes:
            if w[1] <= inv:
                base = w
        vals = []
        if base is not None:
            vals.append(base[3])
        for w in writes:
            if w is base:
                continue
            if w[0] < ret and w[1] > inv and w[3] not in vals:
                vals.append(w[3])
        out[reg] = vals
    return out


def assignments(cands: dict):
    regs = list(cands)
    total = 1
    for r in regs:
        total *= max(1, len(cands[r]))
    if total > MAX_ASSIGNMENTS:
        return None
    return [dict(zip(regs, combo)) for combo in itertools.product(*[cands[r] for r in regs])]


def apply_assignment(world: World, sc, asg):
    world.reset(sc.get("world", {}))
    for reg, val in asg.items():
        if reg.startswith("_"):
            continue
        if reg == "disc":
            _ltz._local_timezone = None if val is None else World.zone(val)
        else:
            world.set_reg(reg, val)


def quiescent_eval(world, sc, op, asg, qres, zlog=None, zctx=None):
    apply_assignment(world, sc, asg)
    mapping = None
    if zctx is not None:
        # the reference evaluation works with the very zone objects of the simulation
        mapping = dict(enumerate(zctx[1]))
        if asg.get("_mock_tok") is not None and asg["_mock_tok"] in mapping:
            world.set_mock_obj(mapping[asg["_mock_tok"]])
        zone_replay(zctx[0], mapping)
    try:
        pool = [build(s, None) for s in sc.get("pool", [])]
    finally:
        zone_replay_end()
    if mapping is not None:
        zone_replay(zlog or [], mapping)
    try:
        res = execute(op, Env(pool, qres))
    except Skip:
        return Skip, ["SKIP"]
    except HarnessError:
        raise
    except Exception as e:
        res = e
    finally:
        zone_replay_end()
    try:
        o = observe(res)
    except Exception as e:
        o = ["OBS-EXC", type(e).__name__, str(e)[:200]]
    return res, o


def l1_check(run: Run, prop=None):
    """returns (violations, stats)."""
    world = get_world()
    sc = run.sc
    viols = []
    stats = {"l1_ops": 0, "l1_evals": 0, "l1_multi": 0, "l1_unchecked": 0, "l1_relaxed": 0}
    run.matched = {}
    run.relaxed_ops = set()
    for actor in sc["actors"]:
        name = actor["name"]
        if actor.get("nemesis"):
            continue
        qres = []
        for i, op in enumerate(actor["ops"]):
            if op[0] in ("barrier", "nem"):
                qres.append(None)
                continue
            rec = run.recs.get((name, i))
            if rec is None:
                qres.append(Skip)
                continue
            if rec["obs"] == ["SKIP"]:
                qres.append(Skip)
                continue
            cands = reg_candidates(run, rec)
            relaxed = False
            if prop is not None and hasattr(prop, "extend_candidates"):
                relaxed = bool(prop.extend_candidates(run, rec, op, cands))
            asgs = assignments(cands)
            if asgs:
                # the mock local zone is an *object*: the reference uses the one the simulation had
                mt = mock_tokens(run, rec)
                if mt:
                    asgs = [dict(a, _mock_tok=t) if a.get("mock_tz") in mt else a
                            for a in asgs for t in (mt.get(a.get("mock_tz")) or [None])]
            stats["l1_ops"] += 1
            if asgs is None:
                stats["l1_unchecked"] += 1
                qres.append(Skip)
                continue
            if len(asgs) > 1:
                stats["l1_multi"] += 1
            matched = False
            expected = []
            undecidable = False
            for asg in asgs:
                res, o = quiescent_eval(world, sc, op, asg, qres, rec.get("zlog"), (run.pool_zlog, run.zobjs))
                stats["l1_evals"] += 1
                if res is Skip:
                    # an input is the result of an earlier op of this client that was itself
                    # reported (or could not be decided): nothing to compare against
                    undecidable = True
                    break
                expected.append({"regs": asg, "obs": o})
                if o == rec["obs"]:
                    # later ops of this client take the *simulated* result object as input, so that
                    # hidden state of a correct result (fold of an unambiguous time, tzinfo identity)
                    # flows into the reference evaluation exactly as it did in the simulation
                    qres.append(run.results[name][i])
                    matched = True
                    run.matched[(name, i)] = dict(asg, _zlog=rec["zlog"]) if rec.get("zlog") else asg
                    if rec.get("zlog"):
                        stats["l1_zone_history_replayed"] = stats.get("l1_zone_history_replayed", 0) + 1
                    if relaxed:
                        run.relaxed_ops.add((name, i))
                    break
            if matched:
                continue
            qres.append(Skip)
            if undecidable:
                stats["l1_unchecked"] += 1
                continue
            if relaxed and isinstance(rec["obs"], list) and rec["obs"] and rec["obs"][0] == "EXC":
                stats["l1_relaxed"] += 1
                continue
            viols.append({
                "oracle": "L1",
                "label": op_label(op),
                "actor": name,
                "i": i,
                "op": op,
                "sim_obs": rec["obs"],
                "expected": expected[:6],
                "faults": rec.get("faults", []),
            })
    return viols, stats


def decide(sc, prop=None, full_digest=True, cold=None):
    """simulate + L1 (+ cold-process L1 when a ColdServer is given) + L2 -> (run, violations, stats)"""
    run = simulate(sc, full_digest=full_digest)
    if run.capped:
        return run, [], {"capped": 1}
    viols, stats = l1_check(run, prop)
    if cold is not None:
        from .cold import cold_check

        v3, s3 = cold_check(cold, run, run.matched, run.relaxed_ops)
        viols.extend(v3)
        stats.update(s3)
    if prop is not None and hasattr(prop, "l2_check"):
        v2, s2 = prop.l2_check(run)
        viols.extend(v2)
        stats.update(s2)
    if cold is not None and prop is not None and hasattr(prop, "cold_l2"):
        v4, s4 = prop.cold_l2(run, cold)
        viols.extend(v4)
        stats.update(s4)
    get_world().reset({})
    return run, viols, stats


def solo_obs(sc):
    """every client op evaluated once, un-pre-empted, in program order in a cold world with the
    initial registers and no nemesis: a pure function of the scenario and the code (used for the
    compiled-vs-pure-Python differential)."""
    world = get_world()
    world.reset(sc.get("world", {}))
    out = []
    pool = [build(s, None) for s in sc.get("pool", [])]
    for actor in sc["actors"]:
        if actor.get("nemesis"):
            continue
        res = []
        env = Env(pool, res)
        for op in actor["ops"]:
            if op[0] in ("barrier", "nem"):
                res.append(None)
                continue
            try:
                r = execute(op, env)
            except Skip:
                r = Skip
            except HarnessError:
                raise
            except Exception as e:
                r = e
            res.append(r)
            try:
                out.append(["SKIP"] if r is Skip else observe(r))
            except Exception as e:
                out.append(["OBS-EXC", type(e).__name__])
    world.reset({})
    return out


def solo_digest(sc):
    return [hashlib.sha256(json.dumps(solo_obs(sc), sort_keys=True, default=str).encode()).hexdigest()[:24]]


def signature(v):
    return [v["oracle"], v["label"]] + list(v.get("sig_extra", []))
