"""Cold-process oracle: history independence against a process that has seen nothing.

world.reset() can only empty the caches the harness knows about.  A memo introduced by an edit
(functools.lru_cache keyed on too little, a module-level "last result") survives it, so the
in-process quiescent re-execution would share the pollution with the simulated run.  This
module keeps a *pristine* copy of the worker (forked right after imports, before the first run)
and evaluates one client's program in a fresh fork of it: only the pool values that client
references are built, no other actor ever ran there.  The simulated observation of every op
whose inputs are pool values or literals must equal that cold observation (under the register
assignment the in-process oracle matched).
"""
from __future__ import annotations

import json
import os
import pickle
import struct
import sys


def _send(fd, obj):
    data = pickle.dumps(obj, protocol=4)
    os.write(fd, struct.pack("<I", len(data)))
    view = memoryview(data)
    while view:
        n = os.write(fd, view[:65536])
        view = view[n:]


def _recv(fd):
    hdr = b""
    while len(hdr) < 4:
        chunk = os.read(fd, 4 - len(hdr))
        if not chunk:
            return None
        hdr += chunk
    (n,) = struct.unpack("<I", hdr)
    buf = bytearray()
    while len(buf) < n:
        chunk = os.read(fd, min(65536, n - len(buf)))
        if not chunk:
            return None
        buf += chunk
    return pickle.loads(bytes(buf))


class _LazyPool:
    def __init__(self, specs):
        self.specs = specs
        self.vals = {}

    def __getitem__(self, i):
        if i not in self.vals:
            from .ops import build

            self.vals[i] = build(self.specs[i], None)
        return self.vals[i]


def _unpickle(req):
    """a value that survived a 'process restart' as bytes: load and observe it in a process that
    has none of the sender's caches or zone objects."""
    import pickle as _p

    from .obs import observe
    from .world import get_world

    get_world().reset(req.get("world", {}))
    out = []
    for data in req["unpickle"]:
        try:
            out.append(observe(_p.loads(data)))
        except Exception as e:  # noqa: BLE001
            out.append(["EXC", type(e).__name__, str(e)[:200]])
    return out


def _evaluate(req):
    """runs in a fresh fork of the pristine process."""
    if "unpickle" in req:
        return _unpickle(req)
    from .engine import apply_assignment
    from .obs import observe
    from .ops import Env, Skip, execute
    from .world import get_world, zone_replay, zone_replay_end

    world = get_world()
    sc = req["sc"]
    out = {}
    results = []
    first = True
    pool = _LazyPool(sc.get("pool", []))
    env = Env(pool, results)
    # zone-object identities of the simulation (world.ZONE_HISTORY), replayed with one fresh
    # object per token: the shared values are built first, as in the simulation
    zhist = req.get("pool_zlog") is not None
    zmap = {}
    for i, (op, asg) in enumerate(req["ops"]):
        if op[0] in ("barrier", "nem") or asg is None:
            results.append(Skip if asg is None and op[0] not in ("barrier", "nem") else None)
            continue
        if first:
            apply_assignment(world, sc, asg)       # includes the canonical reset
            first = False
            if zhist:
                import pendulum

                zmap[0] = pendulum.UTC
                zone_replay(req["pool_zlog"], zmap)
                try:
                    for j in range(len(pool.specs)):
                        try:
                            pool[j]
                        except Exception:  # noqa: BLE001 - surfaces again when an op uses the value
                            pass
                finally:
                    zone_replay_end()
        else:
            for reg, val in asg.items():
                if reg != "disc" and not reg.startswith("_"):
                    world.set_reg(reg, val)
        if zhist and asg.get("_mock_tok") is not None and isinstance(asg.get("mock_tz"), str):
            zone_replay([asg["_mock_tok"]], zmap)          # the mock zone object, by its token
            try:
                world.set_reg("mock_tz", asg["mock_tz"])
            finally:
                zone_replay_end()
        if zhist:
            zone_replay(asg.get("_zlog") or [], zmap)
        try:
            r = execute(op, env)
        except Skip:
            r = Skip
        except Exception as e:  # noqa: BLE001 - an exception is an observation
            r = e
        finally:
            zone_replay_end()
        results.append(r)
        try:
            out[i] = ["SKIP"] if r is Skip else observe(r)
        except Exception as e:  # noqa: BLE001
            out[i] = ["OBS-EXC", type(e).__name__]
    return out


class ColdServer:
    """parent side handle; the server process is forked by start()."""

    def __init__(self):
        self.req_w = self.res_r = None
        self.pid = None

    def start(self):
        req_r, self.req_w = os.pipe()
        self.res_r, res_w = os.pipe()
        pid = os.fork()
        if pid:
            os.close(req_r)
            os.close(res_w)
            self.pid = pid
            return
        # ---- pristine server process: never runs a scenario itself
        os.close(self.req_w)
        os.close(self.res_r)
        try:
            while True:
                req = _recv(req_r)
                if req is None:
                    break
                r, w = os.pipe()
                cpid = os.fork()
                if cpid == 0:
                    os.close(r)
                    try:
                        _send(w, ("ok", _evaluate(req)))
                    except BaseException as e:  # noqa: BLE001
                        try:
                            _send(w, ("err", repr(e)))
                        except Exception:
                            pass
                    os._exit(0)
                os.close(w)
                res = _recv(r)
                os.close(r)
                os.waitpid(cpid, 0)
                _send(res_w, res if res is not None else ("err", "cold child died"))
        finally:
            os._exit(0)

    def evaluate(self, sc, ops_with_asg, pool_zlog=None):
        slim = {k: sc[k] for k in ("world", "pool") if k in sc}
        _send(self.req_w, {"sc": slim, "ops": ops_with_asg, "pool_zlog": pool_zlog})
        return _recv(self.res_r)

    def unpickle(self, world_cfg, blobs):
        _send(self.req_w, {"unpickle": list(blobs), "world": world_cfg})
        res = _recv(self.res_r)
        if res is None or res[0] != "ok":
            raise RuntimeError("cold-process unpickle failed: %r" % (res,))
        return res[1]

    def stop(self):
        if self.pid:
            try:
                os.close(self.req_w)
                os.waitpid(self.pid, 0)
            except OSError:
                pass
            self.pid = None


def _has_result_ref(x):
    if isinstance(x, dict):
        if x.get("$") == "r":
            return True
        return any(_has_result_ref(v) for v in x.values())
    if isinstance(x, list):
        return any(_has_result_ref(v) for v in x)
    return False


def cold_check(server: ColdServer, run, matched, relaxed_ops):
    """-> (violations, stats).  ``matched`` maps (actor, i) -> register assignment the in-process
    oracle matched; ops without one (reported, unchecked, relaxed) are not compared."""
    from .ops import op_label

    sc = run.sc
    viols = []
    stats = {"cold_ops": 0, "cold_clients": 0}
    for actor in sc["actors"]:
        if actor.get("nemesis"):
            continue
        name = actor["name"]
        ops = [(op, matched.get((name, i))) for i, op in enumerate(actor["ops"])]
        if not any(a is not None for _, a in ops):
            continue
        res = server.evaluate(sc, ops, getattr(run, "pool_zlog", None))
        stats["cold_clients"] += 1
        if res is None or res[0] != "ok":
            raise RuntimeError("cold-process oracle failed: %r" % (res,))
        obs = res[1]
        for i, (op, asg) in enumerate(ops):
            if asg is None or (name, i) in relaxed_ops or _has_result_ref(op):
                continue
            rec = run.recs.get((name, i))
            if rec is None or i not in obs:
                continue
            stats["cold_ops"] += 1
            if json.dumps(obs[i], sort_keys=True, default=str) != json.dumps(rec["obs"], sort_keys=True, default=str):
                viols.append({"oracle": "L1.cold-process", "label": op_label(op), "actor": name, "i": i, "op": op,
                              "sim_obs": rec["obs"], "expected": [{"regs": asg, "obs": obs[i], "where": "pristine process, only this client's program"}],
                              "facts": {}})
    return viols, stats
